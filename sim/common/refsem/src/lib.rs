//! refsem — executable definition of ADF semantics by truth tables, independent of every BDD.
//!
//! An ADF is a list of statements with one acceptance formula each. All semantics are computed
//! by brute force from the definitions (n ≤ 8):
//!
//! * Γ(v)(s) = T if φ_s is true under every total completion of v, F if false under every one,
//!   U otherwise;
//! * grounded = least fixpoint of Γ from the all-undecided interpretation;
//! * complete = all fixpoints of Γ among the 3^n interpretations;
//! * two-valued models = total v with φ_s(v) = v(s);
//! * stable = two-valued models v such that the grounded interpretation of the reduct (every
//!   φ_s with the statements false in v replaced by ⊥) makes every statement true in v true.
//!
//! The text form handed to the code under test is printed from the same AST, so the oracle
//! does not depend on the repository's parser.

use serde::{Deserialize, Serialize};
use simcore::Rng;

#[derive(Clone, Debug, Serialize, Deserialize, PartialEq, Eq, Hash)]
pub enum F {
    Top,
    Bot,
    Atom(usize),
    Not(Box<F>),
    And(Box<F>, Box<F>),
    Or(Box<F>, Box<F>),
    Imp(Box<F>, Box<F>),
    Iff(Box<F>, Box<F>),
    Xor(Box<F>, Box<F>),
}

impl F {
    pub fn eval(&self, w: u32) -> bool {
        match self {
            F::Top => true,
            F::Bot => false,
            F::Atom(i) => (w >> i) & 1 == 1,
            F::Not(a) => !a.eval(w),
            F::And(a, b) => a.eval(w) && b.eval(w),
            F::Or(a, b) => a.eval(w) || b.eval(w),
            F::Imp(a, b) => !a.eval(w) || b.eval(w),
            F::Iff(a, b) => a.eval(w) == b.eval(w),
            F::Xor(a, b) => a.eval(w) != b.eval(w),
        }
    }

    pub fn text(&self, names: &[String]) -> String {
        match self {
            F::Top => "c(v)".into(),
            F::Bot => "c(f)".into(),
            F::Atom(i) => label_text(&names[*i]),
            F::Not(a) => format!("neg({})", a.text(names)),
            F::And(a, b) => format!("and({},{})", a.text(names), b.text(names)),
            F::Or(a, b) => format!("or({},{})", a.text(names), b.text(names)),
            F::Imp(a, b) => format!("imp({},{})", a.text(names), b.text(names)),
            F::Iff(a, b) => format!("iff({},{})", a.text(names), b.text(names)),
            F::Xor(a, b) => format!("xor({},{})", a.text(names), b.text(names)),
        }
    }

    pub fn size(&self) -> usize {
        match self {
            F::Top | F::Bot | F::Atom(_) => 1,
            F::Not(a) => 1 + a.size(),
            F::And(a, b) | F::Or(a, b) | F::Imp(a, b) | F::Iff(a, b) | F::Xor(a, b) => {
                1 + a.size() + b.size()
            }
        }
    }

    pub fn atoms(&self, out: &mut Vec<usize>) {
        match self {
            F::Top | F::Bot => {}
            F::Atom(i) => out.push(*i),
            F::Not(a) => a.atoms(out),
            F::And(a, b) | F::Or(a, b) | F::Imp(a, b) | F::Iff(a, b) | F::Xor(a, b) => {
                a.atoms(out);
                b.atoms(out)
            }
        }
    }

    /// Replace atom `i` by a constant and renumber atoms above `i` down by one.
    pub fn drop_atom(&self, i: usize, val: bool) -> F {
        let r = |x: &F| Box::new(x.drop_atom(i, val));
        match self {
            F::Top => F::Top,
            F::Bot => F::Bot,
            F::Atom(j) if *j == i => {
                if val {
                    F::Top
                } else {
                    F::Bot
                }
            }
            F::Atom(j) if *j > i => F::Atom(j - 1),
            F::Atom(j) => F::Atom(*j),
            F::Not(a) => F::Not(r(a)),
            F::And(a, b) => F::And(r(a), r(b)),
            F::Or(a, b) => F::Or(r(a), r(b)),
            F::Imp(a, b) => F::Imp(r(a), r(b)),
            F::Iff(a, b) => F::Iff(r(a), r(b)),
            F::Xor(a, b) => F::Xor(r(a), r(b)),
        }
    }

    /// One-step simplifications: replace the formula by a child or by a constant, or simplify
    /// inside a child.
    pub fn simpler(&self) -> Vec<F> {
        let mut out = Vec::new();
        match self {
            F::Top | F::Bot => {}
            F::Atom(_) => {
                out.push(F::Top);
                out.push(F::Bot);
            }
            F::Not(a) => {
                out.push((**a).clone());
                for s in a.simpler() {
                    out.push(F::Not(Box::new(s)));
                }
            }
            F::And(a, b) | F::Or(a, b) | F::Imp(a, b) | F::Iff(a, b) | F::Xor(a, b) => {
                out.push((**a).clone());
                out.push((**b).clone());
                let mk = |x: F, y: F| match self {
                    F::And(..) => F::And(Box::new(x), Box::new(y)),
                    F::Or(..) => F::Or(Box::new(x), Box::new(y)),
                    F::Imp(..) => F::Imp(Box::new(x), Box::new(y)),
                    F::Iff(..) => F::Iff(Box::new(x), Box::new(y)),
                    _ => F::Xor(Box::new(x), Box::new(y)),
                };
                for s in a.simpler() {
                    out.push(mk(s, (**b).clone()));
                }
                for s in b.simpler() {
                    out.push(mk((**a).clone(), s));
                }
            }
        }
        out
    }
}

/// A label as it is written in the input format: bare if ASCII-alphanumeric, quoted otherwise
/// (the documented syntax: alphanumeric or quoted labels; a quoted label must not contain `"`).
pub fn label_text(name: &str) -> String {
    if !name.is_empty() && name.chars().all(|c| c.is_ascii_alphanumeric()) {
        name.to_string()
    } else {
        format!("\"{name}\"")
    }
}

/// Large, sparse instances: every statement is a fact (condition `c(v)` / `c(f)`) except a
/// handful of "free" ones. Substituting the facts into the free statements' conditions gives a
/// small ADF whose models, extended by the facts, are exactly the large one's (a fact is decided
/// in the first round of every fixpoint computation, also in the reduct's).
pub struct Sparse {
    pub free: Vec<usize>,
    pub small: AdfSpec,
}

fn subst(f: &F, m: &dyn Fn(usize) -> F) -> F {
    let b = |x: &F| Box::new(subst(x, m));
    match f {
        F::Top => F::Top,
        F::Bot => F::Bot,
        F::Atom(i) => m(*i),
        F::Not(a) => F::Not(b(a)),
        F::And(x, y) => F::And(b(x), b(y)),
        F::Or(x, y) => F::Or(b(x), b(y)),
        F::Imp(x, y) => F::Imp(b(x), b(y)),
        F::Iff(x, y) => F::Iff(b(x), b(y)),
        F::Xor(x, y) => F::Xor(b(x), b(y)),
    }
}

impl Sparse {
    /// `None` unless at most `max_free` statements have a non-constant condition.
    pub fn of(spec: &AdfSpec, max_free: usize) -> Option<Sparse> {
        let free: Vec<usize> = (0..spec.n()).filter(|i| !matches!(spec.acs[*i], F::Top | F::Bot)).collect();
        if free.is_empty() || free.len() > max_free {
            return None;
        }
        let m = |i: usize| match free.iter().position(|x| *x == i) {
            Some(k) => F::Atom(k),
            None => spec.acs[i].clone(),
        };
        let small = AdfSpec {
            names: free.iter().map(|i| spec.names[*i].clone()).collect(),
            acs: free.iter().map(|i| subst(&spec.acs[*i], &m)).collect(),
            ac_order: (0..free.len()).collect(),
        };
        Some(Sparse { free, small })
    }

    /// Extend an interpretation of the small ADF by the facts.
    pub fn extend(&self, spec: &AdfSpec, small: &[V]) -> Vec<V> {
        (0..spec.n())
            .map(|i| match self.free.iter().position(|x| *x == i) {
                Some(k) => small[k],
                None => {
                    if spec.acs[i] == F::Top {
                        V::T
                    } else {
                        V::F
                    }
                }
            })
            .collect()
    }

    /// Embed a small ADF at the given positions of an `n`-statement ADF of facts.
    pub fn embed(small: &AdfSpec, positions: &[usize], n: usize, fact: &dyn Fn(usize) -> bool) -> AdfSpec {
        let names: Vec<String> = (0..n).map(|i| format!("s{i}")).collect();
        let acs = (0..n)
            .map(|i| match positions.iter().position(|p| *p == i) {
                Some(k) => subst(&small.acs[k], &|j| F::Atom(positions[j])),
                None => {
                    if fact(i) {
                        F::Top
                    } else {
                        F::Bot
                    }
                }
            })
            .collect();
        AdfSpec { names, acs, ac_order: (0..n).collect() }
    }
}

/// Labels that stress name handling: number-like, keyword-like, with spaces, punctuation,
/// non-ASCII letters, very long. (Not used: characters out of `! & | ^ = < > ( ) ? :` — the
/// parser accepts them inside quotes but the biodivine bridge panics on such variable names;
/// that is an input-domain limitation of the bridge, outside the claimed properties.)
pub const ODD_LABELS: [&str; 15] = ["10", "2", "01", "and", "c", "neg", "a b", "x-1", "ü", "日本", "a,b", "Z", "averyveryveryveryveryveryveryveryveryverylonglabel0123456789", "𝛼", "x𝛼😀y"];

/// Replace the labels of a spec by distinct odd ones (the formulas refer to statements by
/// position, so nothing else changes).
pub fn odd_names(rng: &mut Rng, spec: &mut AdfSpec) {
    let mut pool: Vec<&str> = ODD_LABELS.to_vec();
    for i in 0..spec.names.len() {
        if pool.is_empty() {
            break;
        }
        let k = rng.below(pool.len() as u64) as usize;
        spec.names[i] = pool.remove(k).to_string();
    }
}

/// Random formula over `n` atoms.
pub fn gen_formula(rng: &mut Rng, n: usize, depth: u32) -> F {
    if depth == 0 || rng.chance(1, 4) {
        return match rng.below(10) {
            0 => F::Top,
            1 => F::Bot,
            _ => F::Atom(rng.below(n as u64) as usize),
        };
    }
    let a = Box::new(gen_formula(rng, n, depth - 1));
    if rng.chance(1, 5) {
        return F::Not(a);
    }
    let b = Box::new(gen_formula(rng, n, depth - 1));
    match rng.below(5) {
        0 => F::And(a, b),
        1 => F::Or(a, b),
        2 => F::Imp(a, b),
        3 => F::Iff(a, b),
        _ => F::Xor(a, b),
    }
}

#[derive(Clone, Debug, Serialize, Deserialize, PartialEq, Eq, Hash)]
pub struct AdfSpec {
    pub names: Vec<String>,
    /// acceptance formula of statement i
    pub acs: Vec<F>,
    /// order in which the `ac(..)` facts are written
    pub ac_order: Vec<usize>,
}

/// Three-valued truth value.
#[derive(Clone, Copy, Debug, PartialEq, Eq, Hash, PartialOrd, Ord, Serialize, Deserialize)]
pub enum V {
    F,
    T,
    U,
}

pub type Interp = Vec<V>;

pub fn show(v: &[V]) -> String {
    v.iter()
        .map(|x| match x {
            V::T => 'T',
            V::F => 'F',
            V::U => 'u',
        })
        .collect()
}

impl AdfSpec {
    pub fn n(&self) -> usize {
        self.names.len()
    }

    pub fn gen(rng: &mut Rng, n: usize, depth: u32, label_prefix: &str) -> AdfSpec {
        let names: Vec<String> = (0..n).map(|i| format!("{label_prefix}{i}")).collect();
        let acs = (0..n).map(|_| gen_formula(rng, n, depth)).collect();
        let mut ac_order: Vec<usize> = (0..n).collect();
        if rng.chance(1, 2) {
            for i in (1..n).rev() {
                let j = rng.below(i as u64 + 1) as usize;
                ac_order.swap(i, j);
            }
        }
        AdfSpec {
            names,
            acs,
            ac_order,
        }
    }

    /// Text in the documented input format: all `s(..)` facts in index order (so statement i is
    /// variable i without sorting), then the `ac(..)` facts in `ac_order`.
    pub fn text(&self) -> String {
        let mut s = String::new();
        for n in &self.names {
            s.push_str(&format!("s({}).", label_text(n)));
        }
        for i in &self.ac_order {
            s.push_str(&format!("ac({},{}).", label_text(&self.names[*i]), self.acs[*i].text(&self.names)));
        }
        s
    }

    pub fn tables(&self) -> Vec<Vec<bool>> {
        let n = self.n();
        self.acs
            .iter()
            .map(|f| (0..(1u32 << n)).map(|w| f.eval(w)).collect())
            .collect()
    }

    /// Structurally simpler specs: drop a statement (its occurrences become ⊥), simplify one
    /// formula one step.
    pub fn simpler(&self) -> Vec<AdfSpec> {
        let mut out = Vec::new();
        let n = self.n();
        if n > 1 {
            for i in (0..n).rev() {
                let mut names = self.names.clone();
                names.remove(i);
                let acs: Vec<F> = self
                    .acs
                    .iter()
                    .enumerate()
                    .filter(|(j, _)| *j != i)
                    .map(|(_, f)| f.drop_atom(i, false))
                    .collect();
                let ac_order = self
                    .ac_order
                    .iter()
                    .filter(|j| **j != i)
                    .map(|j| if *j > i { *j - 1 } else { *j })
                    .collect();
                out.push(AdfSpec {
                    names,
                    acs,
                    ac_order,
                });
            }
        }
        for i in 0..n {
            for s in self.acs[i].simpler() {
                let mut c = self.clone();
                c.acs[i] = s;
                out.push(c);
            }
        }
        let sorted: Vec<usize> = (0..n).collect();
        if self.ac_order != sorted {
            let mut c = self.clone();
            c.ac_order = sorted;
            out.push(c);
        }
        out
    }
}

/// Semantics over truth tables (`tabs[s][w]`), n statements.
pub struct Sem {
    pub n: usize,
    pub tabs: Vec<Vec<bool>>,
}

impl Sem {
    pub fn new(spec: &AdfSpec) -> Sem {
        Sem {
            n: spec.n(),
            tabs: spec.tables(),
        }
    }

    pub fn from_tables(n: usize, tabs: Vec<Vec<bool>>) -> Sem {
        Sem { n, tabs }
    }

    /// Γ for arbitrary tables (used for the reduct as well).
    fn gamma_tabs(&self, tabs: &[Vec<bool>], v: &[V]) -> Interp {
        let n = self.n;
        let mut fixed_mask = 0u32;
        let mut fixed_val = 0u32;
        for (i, x) in v.iter().enumerate() {
            match x {
                V::T => {
                    fixed_mask |= 1 << i;
                    fixed_val |= 1 << i;
                }
                V::F => fixed_mask |= 1 << i,
                V::U => {}
            }
        }
        tabs.iter()
            .map(|tab| {
                let (mut any_t, mut any_f) = (false, false);
                for w in 0..(1u32 << n) {
                    if w & fixed_mask == fixed_val {
                        if tab[w as usize] {
                            any_t = true
                        } else {
                            any_f = true
                        }
                        if any_t && any_f {
                            break;
                        }
                    }
                }
                match (any_t, any_f) {
                    (true, false) => V::T,
                    (false, true) => V::F,
                    _ => V::U,
                }
            })
            .collect()
    }

    pub fn gamma(&self, v: &[V]) -> Interp {
        self.gamma_tabs(&self.tabs, v)
    }

    fn lfp(&self, tabs: &[Vec<bool>]) -> Interp {
        let mut v = vec![V::U; self.n];
        loop {
            let g = self.gamma_tabs(tabs, &v);
            // Γ is monotone w.r.t. the information order, so decided values never revert
            if g == v {
                return v;
            }
            v = g;
        }
    }

    pub fn grounded(&self) -> Interp {
        self.lfp(&self.tabs)
    }

    pub fn complete(&self) -> Vec<Interp> {
        let n = self.n;
        let mut out = Vec::new();
        let total = 3usize.pow(n as u32);
        for code in 0..total {
            let mut c = code;
            let v: Interp = (0..n)
                .map(|_| {
                    let d = c % 3;
                    c /= 3;
                    [V::F, V::T, V::U][d]
                })
                .collect();
            if self.gamma(&v) == v {
                out.push(v);
            }
        }
        out
    }

    pub fn two_valued_models(&self) -> Vec<Interp> {
        let n = self.n;
        let mut out = Vec::new();
        for w in 0..(1u32 << n) {
            if (0..n).all(|s| self.tabs[s][w as usize] == ((w >> s) & 1 == 1)) {
                out.push(
                    (0..n)
                        .map(|s| if (w >> s) & 1 == 1 { V::T } else { V::F })
                        .collect(),
                );
            }
        }
        out
    }

    pub fn is_stable(&self, v: &[V]) -> bool {
        let n = self.n;
        let mut false_mask = 0u32;
        for (i, x) in v.iter().enumerate() {
            if *x == V::F {
                false_mask |= 1 << i;
            }
        }
        // reduct: statements false in v are replaced by ⊥ in every condition
        let red: Vec<Vec<bool>> = self
            .tabs
            .iter()
            .map(|tab| {
                (0..(1u32 << n))
                    .map(|w| tab[(w & !false_mask) as usize])
                    .collect()
            })
            .collect();
        let g = self.lfp(&red);
        (0..n).all(|s| v[s] != V::T || g[s] == V::T)
    }

    pub fn stable(&self) -> Vec<Interp> {
        self.two_valued_models()
            .into_iter()
            .filter(|v| self.is_stable(v))
            .collect()
    }
}

pub fn sorted(mut v: Vec<Interp>) -> Vec<Interp> {
    v.sort();
    v
}

#[cfg(test)]
mod test {
    use super::*;

    fn spec(names: &[&str], acs: Vec<F>) -> AdfSpec {
        AdfSpec {
            names: names.iter().map(|s| s.to_string()).collect(),
            ac_order: (0..acs.len()).collect(),
            acs,
        }
    }
    fn a(i: usize) -> Box<F> {
        Box::new(F::Atom(i))
    }

    #[test]
    fn textbook() {
        // repo test `grounded`/`complete`: s(a).s(b).s(c).s(d).ac(a,c(v)).ac(b,b).ac(c,and(a,b)).ac(d,neg(b)).
        let s = spec(
            &["a", "b", "c", "d"],
            vec![F::Top, F::Atom(1), F::And(a(0), a(1)), F::Not(a(1))],
        );
        let sem = Sem::new(&s);
        assert_eq!(show(&sem.grounded()), "Tuuu");
        let c: Vec<String> = sorted(sem.complete()).iter().map(|v| show(v)).collect();
        assert_eq!(c, vec!["TFFT", "TTTF", "Tuuu"]);
        // stable: b self-supporting cannot be derived
        let st: Vec<String> = sem.stable().iter().map(|v| show(v)).collect();
        assert_eq!(st, vec!["TFFT"]);
        assert_eq!(s.text(), "s(a).s(b).s(c).s(d).ac(a,c(v)).ac(b,b).ac(c,and(a,b)).ac(d,neg(b)).");
    }

    #[test]
    fn self_support() {
        // s(a).s(b).s(c).ac(a,c).ac(b,and(b,a)).ac(c,c).  -> only stable model FFF
        let s = spec(
            &["a", "b", "c"],
            vec![F::Atom(2), F::And(a(1), a(0)), F::Atom(2)],
        );
        let sem = Sem::new(&s);
        let st: Vec<String> = sem.stable().iter().map(|v| show(v)).collect();
        assert_eq!(st, vec!["FFF"]);
        assert_eq!(sem.two_valued_models().len(), 3);
    }
}
