//! The only pseudo-random generator of the framework.

#[derive(Clone, Debug)]
pub struct Rng {
    s: [u64; 4],
}

fn splitmix(x: &mut u64) -> u64 {
    *x = x.wrapping_add(0x9e3779b97f4a7c15);
    let mut z = *x;
    z = (z ^ (z >> 30)).wrapping_mul(0xbf58476d1ce4e5b9);
    z = (z ^ (z >> 27)).wrapping_mul(0x94d049bb133111eb);
    z ^ (z >> 31)
}

/// Derive an independent stream id from two integers (seed, run index / property tag).
pub fn mix(a: u64, b: u64) -> u64 {
    let mut x = a ^ b.rotate_left(32) ^ 0x5851f42d4c957f2d;
    let r = splitmix(&mut x);
    let mut y = r ^ b;
    splitmix(&mut y)
}

impl Rng {
    pub fn new(seed: u64) -> Self {
        let mut x = seed;
        let s = [
            splitmix(&mut x),
            splitmix(&mut x),
            splitmix(&mut x),
            splitmix(&mut x),
        ];
        Rng { s }
    }

    pub fn next_u64(&mut self) -> u64 {
        let result = self.s[1].wrapping_mul(5).rotate_left(7).wrapping_mul(9);
        let t = self.s[1] << 17;
        self.s[2] ^= self.s[0];
        self.s[3] ^= self.s[1];
        self.s[1] ^= self.s[2];
        self.s[0] ^= self.s[3];
        self.s[2] ^= t;
        self.s[3] = self.s[3].rotate_left(45);
        result
    }

    /// Uniform in `0..n` (n > 0).
    pub fn below(&mut self, n: u64) -> u64 {
        debug_assert!(n > 0);
        if n <= 1 {
            return 0;
        }
        // multiply-shift; the bias is < 2^-32 for the bounds used here
        (((self.next_u64() >> 32) as u128 * n as u128) >> 32) as u64
    }

    pub fn range(&mut self, lo: u64, hi_incl: u64) -> u64 {
        lo + self.below(hi_incl - lo + 1)
    }

    pub fn chance(&mut self, num: u64, den: u64) -> bool {
        self.below(den) < num
    }

    pub fn pick<'a, T>(&mut self, xs: &'a [T]) -> &'a T {
        &xs[self.below(xs.len() as u64) as usize]
    }

    pub fn bytes32(&mut self) -> [u8; 32] {
        let mut out = [0u8; 32];
        for c in out.chunks_mut(8) {
            c.copy_from_slice(&self.next_u64().to_le_bytes());
        }
        out
    }
}
