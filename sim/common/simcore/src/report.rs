//! Known-findings file, violation records, replay files.

use serde::{Deserialize, Serialize};
use std::path::Path;

#[derive(Clone, Debug, Serialize, Deserialize, PartialEq, Eq)]
pub struct Violation {
    /// which oracle noticed it (e.g. "prefix", "found-flag", "deadlock", "multiset")
    pub oracle: String,
    /// violation class at that oracle (e.g. "missing-model", "duplicate", "non-termination")
    pub class: String,
    /// cause key for the known-findings file; empty when the engine has no recorded cause
    pub key: String,
    /// human-readable detail (not part of the identity of a violation)
    pub message: String,
}

impl Violation {
    pub fn new(oracle: &str, class: &str, message: String) -> Self {
        Violation {
            oracle: oracle.into(),
            class: class.into(),
            key: format!("{oracle}/{class}"),
            message,
        }
    }
    pub fn with_key(mut self, key: String) -> Self {
        self.key = key;
        self
    }
    pub fn same_kind(&self, other: &Violation) -> bool {
        self.oracle == other.oracle && self.class == other.class && self.key == other.key
    }
}

#[derive(Clone, Debug)]
pub struct KnownOpen {
    pub property: String,
    pub key: String,
    pub text: String,
}

#[derive(Clone, Debug, Default)]
pub struct Known {
    pub open: Vec<KnownOpen>,
    pub fixed: Vec<String>,
}

impl Known {
    /// Format, one entry per line (everything else is ignored):
    /// `open: property=<id> key=<key> <free text>`
    /// `fixed: property=<id> <commit> <free text>`
    pub fn load(path: &Path) -> Known {
        let mut k = Known::default();
        let Ok(text) = std::fs::read_to_string(path) else {
            return k;
        };
        for line in text.lines() {
            let line = line.trim();
            if let Some(rest) = line.strip_prefix("open:") {
                let mut property = String::new();
                let mut key = String::new();
                let mut free = Vec::new();
                for tok in rest.split_whitespace() {
                    if let Some(p) = tok.strip_prefix("property=") {
                        if property.is_empty() {
                            property = p.to_string();
                            continue;
                        }
                    }
                    if let Some(p) = tok.strip_prefix("key=") {
                        if key.is_empty() {
                            key = p.to_string();
                            continue;
                        }
                    }
                    free.push(tok);
                }
                if !property.is_empty() && !key.is_empty() {
                    k.open.push(KnownOpen {
                        property,
                        key,
                        text: free.join(" "),
                    });
                }
            } else if let Some(rest) = line.strip_prefix("fixed:") {
                k.fixed.push(rest.trim().to_string());
            }
        }
        k
    }

    pub fn find(&self, property: &str, key: &str) -> Option<&KnownOpen> {
        self.open
            .iter()
            .find(|o| o.property == property && o.key == key)
    }
}

/// Generic replay file. `plan` is the engine's own serialised case.
#[derive(Clone, Debug, Serialize, Deserialize)]
pub struct ReplayFile {
    pub engine: String,
    pub property: String,
    pub scenario: String,
    pub seed: u64,
    pub run_index: u64,
    pub plan: serde_json::Value,
    pub decisions: Vec<u64>,
    /// when set, the decisions are drawn again from this seed instead of being read from
    /// `decisions` (used for runs that aborted the process before their decisions were known)
    #[serde(default)]
    pub decision_seed: Option<u64>,
    pub violation: Violation,
    /// not used by replay; tells a reader what was shrunk away
    pub shrink: serde_json::Value,
}

pub fn write_json_atomic(path: &Path, v: &serde_json::Value) -> std::io::Result<()> {
    if let Some(dir) = path.parent() {
        std::fs::create_dir_all(dir)?;
    }
    let tmp = path.with_extension("json.tmp");
    std::fs::write(&tmp, serde_json::to_string_pretty(v).unwrap() + "\n")?;
    std::fs::rename(&tmp, path)
}
