//! Command line shared by the engines:
//!
//!   <engine> run <scenario> <property> --tier quick|thorough --seed N [--runs N] [--budget S]
//!            [--workers N] --partial <out.json> [--sigs <file>] [--known <file>]
//!            [--replays <dir>] [--work <dir>] [--audit-every K]
//!   <engine> replay <file>
//!
//! exit codes: 0 clean, 1 violation (a `VIOLATION property=.. replay=..` line was printed),
//! 2 harness error.

use crate::batch::{replay_case, run_batch, run_sharded, BatchCfg, BatchOut, Scenario};
use crate::report::{Known, ReplayFile, Violation};
use std::path::PathBuf;

pub fn arg_val(args: &[String], name: &str) -> Option<String> {
    args.iter()
        .position(|a| a == name)
        .and_then(|i| args.get(i + 1).cloned())
}

/// object-safe façade over `Scenario`
pub trait Dyn {
    fn batch(&self, cfg: &BatchCfg) -> BatchOut;
    fn replay(&self, rf: &ReplayFile) -> Result<Option<Violation>, String>;
    /// replay file (without decisions, with the decision seed) for run `i` of a batch
    fn replay_file_for_run(&self, engine: &str, seed: u64, i: u64, thorough: bool, v: Violation) -> ReplayFile;
}

impl<S: Scenario> Dyn for S {
    fn replay_file_for_run(&self, engine: &str, seed: u64, i: u64, thorough: bool, v: Violation) -> ReplayFile {
        let (case, dseed) = crate::batch::case_of_run(self, seed, i, thorough);
        ReplayFile {
            engine: engine.to_string(),
            property: self.property().to_string(),
            scenario: self.name().to_string(),
            seed,
            run_index: i,
            plan: serde_json::to_value(&case).unwrap(),
            decisions: Vec::new(),
            decision_seed: Some(dseed),
            violation: v,
            shrink: serde_json::json!({"note": "not shrunk: the run aborts the process"}),
        }
    }
    fn batch(&self, cfg: &BatchCfg) -> BatchOut {
        run_batch(self, cfg)
    }
    fn replay(&self, rf: &ReplayFile) -> Result<Option<Violation>, String> {
        replay_case(self, rf).map(|r| r.violation)
    }
}

pub type Lookup<'a> = &'a dyn Fn(&str, &str) -> Option<Box<dyn Dyn>>;

pub fn cmd_run(engine: &str, args: &[String], lookup: Lookup) -> i32 {
    let (Some(scenario), Some(property)) = (args.first(), args.get(1)) else {
        eprintln!("run: need <scenario> <property>");
        return 2;
    };
    let thorough = arg_val(args, "--tier").as_deref() == Some("thorough");
    let seed: u64 = arg_val(args, "--seed")
        .and_then(|s| s.parse().ok())
        .unwrap_or(20260926);
    let max_runs: u64 = arg_val(args, "--runs")
        .and_then(|s| s.parse().ok())
        .unwrap_or(u64::MAX);
    let budget_s: f64 = arg_val(args, "--budget")
        .and_then(|s| s.parse().ok())
        .unwrap_or(0.0);
    let workers: usize = arg_val(args, "--workers")
        .and_then(|s| s.parse().ok())
        .unwrap_or(16);
    let audit_every: u64 = arg_val(args, "--audit-every")
        .and_then(|s| s.parse().ok())
        .unwrap_or(if thorough { 50 } else { 20 });
    let work_dir = PathBuf::from(arg_val(args, "--work").unwrap_or_else(|| "/verif/work".into()));
    let shard = arg_val(args, "--shard").and_then(|s| {
        let (a, b) = s.split_once('/')?;
        Some((a.parse::<u64>().ok()?, b.parse::<u64>().ok()?))
    });
    let sig_file = arg_val(args, "--sigs").map(PathBuf::from);
    let Some(scn) = lookup(scenario, property) else {
        eprintln!("HARNESS-ERROR unknown scenario/property {scenario}/{property}");
        return 2;
    };

    let (out, partial_path) = if let Some(shard) = shard {
        // child of a sharded batch
        let partial = PathBuf::from(arg_val(args, "--child-partial").expect("--child-partial"));
        let known = arg_val(args, "--known")
            .map(|p| Known::load(&PathBuf::from(p)))
            .unwrap_or_default();
        let cfg = BatchCfg {
            seed,
            thorough,
            max_runs,
            budget_s,
            workers: 1,
            audit_every,
            known,
            replay_dir: PathBuf::from(
                arg_val(args, "--replays").unwrap_or_else(|| "/verif/replays".into()),
            ),
            engine: engine.to_string(),
            sig_file: arg_val(args, "--child-sigs").map(PathBuf::from),
            shard,
            distinct_file: arg_val(args, "--distinct-file").map(PathBuf::from),
            progress_file: arg_val(args, "--progress-file").map(PathBuf::from),
        };
        (scn.batch(&cfg), partial)
    } else {
        let partial =
            PathBuf::from(arg_val(args, "--partial").unwrap_or_else(|| "partial.json".into()));
        let mut child_args: Vec<String> = vec!["run".into()];
        child_args.extend(args.iter().cloned());
        let tag = format!("{engine}-{scenario}-{property}-{}", std::process::id());
        (
            run_sharded(&child_args, workers.max(1), &work_dir, &tag, sig_file.as_deref()),
            partial,
        )
    };
    let mut out = out;
    // runs that killed their shard process: report the first as a violation with a replay file
    if let Some((i, detail)) = out.crashed_runs.first().cloned() {
        let replay_dir = PathBuf::from(arg_val(args, "--replays").unwrap_or_else(|| "/verif/replays".into()));
        let v = crate::batch::process_aborted(&detail);
        let rf = scn.replay_file_for_run(engine, seed, i, thorough, v.clone());
        let path = replay_dir.join(format!("{property}-{scenario}-{seed}-{i}-crash.json"));
        match crate::report::write_json_atomic(&path, &serde_json::to_value(&rf).unwrap()) {
            Err(e) => out.harness_errors.push(format!("cannot write {}: {e}", path.display())),
            Ok(()) => match crate::batch::replay_in_fresh_process(&path) {
                Ok(Some(got)) if got.same_kind(&v) => {
                    out.lines.push(format!("VIOLATION property={property} replay={}", path.display()));
                    out.lines.push(format!("  oracle={} class={} key={} :: {} ({} shard process(es) died)", v.oracle, v.class, v.key, v.message, out.crashed_runs.len()));
                    out.violations += 1;
                    out.partial["violations"] = serde_json::json!(out.violations);
                }
                Ok(Some(got)) => {
                    // the fresh process did not die but the run violates the property there: that
                    // execution is the finding (a death by memory exhaustion depends on what else
                    // runs on the machine; the violation does not). Confirm it once more.
                    let rf2 = scn.replay_file_for_run(engine, seed, i, thorough, got.clone());
                    let ok = crate::report::write_json_atomic(&path, &serde_json::to_value(&rf2).unwrap()).is_ok()
                        && matches!(crate::batch::replay_in_fresh_process(&path), Ok(Some(again)) if again.same_kind(&got));
                    if ok {
                        out.lines.push(format!("VIOLATION property={property} replay={}", path.display()));
                        out.lines.push(format!("  oracle={} class={} key={} :: {} (its shard process died: {detail})", got.oracle, got.class, got.key, got.message));
                        out.violations += 1;
                        out.partial["violations"] = serde_json::json!(out.violations);
                    } else {
                        out.harness_errors.push(format!("a shard died during run {i} ({detail}); a fresh process reported {}/{} for that run, but not twice", got.oracle, got.class));
                    }
                }
                other if out.violations > 0 => {
                    // a confirmed violation is reported by this batch already; a death that a
                    // fresh process does not reproduce is noted, it does not hide the verdict
                    out.lines.push(format!("NOTE a shard died during run {i} ({detail}); replaying that run in a fresh process gave {:?}", other.map(|x| x.map(|v| format!("{}/{}", v.oracle, v.class)))));
                }
                other => out.harness_errors.push(format!("a shard died during run {i} ({detail}) but replaying that run in a fresh process gave {:?}", other.map(|x| x.map(|v| format!("{}/{}", v.oracle, v.class))))),
            },
        }
    }
    for l in &out.lines {
        println!("{l}");
    }
    if let Err(e) = crate::report::write_json_atomic(&partial_path, &out.partial) {
        eprintln!("HARNESS-ERROR cannot write {}: {e}", partial_path.display());
        return 2;
    }
    if !out.harness_errors.is_empty() {
        for e in &out.harness_errors {
            eprintln!("HARNESS-ERROR {e}");
        }
        return 2;
    }
    if out.violations > 0 {
        1
    } else {
        0
    }
}

pub fn cmd_replay(args: &[String], lookup: Lookup) -> i32 {
    let Some(path) = args.first() else {
        eprintln!("replay: need <file>");
        return 2;
    };
    let text = match std::fs::read_to_string(path) {
        Ok(t) => t,
        Err(e) => {
            eprintln!("HARNESS-ERROR cannot read {path}: {e}");
            return 2;
        }
    };
    let rf: ReplayFile = match serde_json::from_str(&text) {
        Ok(r) => r,
        Err(e) => {
            eprintln!("HARNESS-ERROR bad replay file {path}: {e}");
            return 2;
        }
    };
    let Some(scn) = lookup(&rf.scenario, &rf.property) else {
        eprintln!(
            "HARNESS-ERROR unknown scenario {} / {}",
            rf.scenario, rf.property
        );
        return 2;
    };
    let child = std::env::var("VERIF_REPLAY_CHILD").is_ok();
    if rf.violation.oracle == "no-crash" && !child {
        // executing it would take this process down: do it in a child and judge its death
        return match crate::batch::replay_in_fresh_process(std::path::Path::new(path)) {
            Ok(Some(v)) => {
                println!("REPLAY-VERDICT {}", serde_json::to_string(&Some(&v)).unwrap());
                println!("VIOLATION property={} replay={}", rf.property, path);
                println!("  oracle={} class={} key={} :: {}", v.oracle, v.class, v.key, v.message);
                1
            }
            Ok(None) => {
                println!("REPLAY-VERDICT null");
                println!("replay of {path}: no violation on this tree");
                0
            }
            Err(e) => {
                eprintln!("HARNESS-ERROR {e}");
                2
            }
        };
    }
    match scn.replay(&rf) {
        Err(e) => {
            eprintln!("HARNESS-ERROR {e}");
            2
        }
        Ok(v) => {
            println!("REPLAY-VERDICT {}", serde_json::to_string(&v).unwrap());
            match v {
                Some(v) => {
                    if !child {
                        println!("VIOLATION property={} replay={}", rf.property, path);
                        println!(
                            "  oracle={} class={} key={} :: {}",
                            v.oracle, v.class, v.key, v.message
                        );
                        if v.same_kind(&rf.violation) {
                            println!("  (same violation as recorded in the file)");
                        } else {
                            println!(
                                "  (recorded in the file: oracle={} class={})",
                                rf.violation.oracle, rf.violation.class
                            );
                        }
                    }
                    1
                }
                None => {
                    if !child {
                        println!("replay of {path}: no violation on this tree");
                    }
                    0
                }
            }
        }
    }
}


/// `<engine> dump <scenario> <property> --seed S --index I [--tier thorough] --out <file>`:
/// write the replay file (with the decision seed) of run I of a batch, without executing it.
pub fn cmd_dump(engine: &str, args: &[String], lookup: Lookup) -> i32 {
    let (Some(scenario), Some(property)) = (args.first(), args.get(1)) else {
        eprintln!("dump: need <scenario> <property>");
        return 2;
    };
    let Some(scn) = lookup(scenario, property) else {
        eprintln!("HARNESS-ERROR unknown scenario/property {scenario}/{property}");
        return 2;
    };
    let seed: u64 = arg_val(args, "--seed").and_then(|s| s.parse().ok()).unwrap_or(20260926);
    let index: u64 = arg_val(args, "--index").and_then(|s| s.parse().ok()).unwrap_or(0);
    let thorough = arg_val(args, "--tier").as_deref() == Some("thorough");
    let out = PathBuf::from(arg_val(args, "--out").unwrap_or_else(|| "dump.json".into()));
    let rf = scn.replay_file_for_run(engine, seed, index, thorough, Violation::new("none", "none", "dumped, not executed".into()));
    match crate::report::write_json_atomic(&out, &serde_json::to_value(&rf).unwrap()) {
        Ok(()) => 0,
        Err(e) => {
            eprintln!("HARNESS-ERROR {e}");
            2
        }
    }
}
