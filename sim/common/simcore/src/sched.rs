//! Baton-passing scheduler.
//!
//! Simulated threads are real OS threads, but exactly one of them runs at any time: a thread
//! runs until its next *scheduling point* (every operation of the simulated channel is one),
//! where the decision source picks who continues. A thread that cannot proceed (receive on an
//! empty channel with live senders, send on a full bounded channel) parks as `Blocked(key)`
//! and is made runnable again by whoever changes that channel's state. If no thread is
//! runnable and at least one is blocked the run is a **deadlock**: every parked thread is
//! unwound with a `SimAbort` payload and the outcome says so — what would be a hang with a
//! real channel becomes a verdict with a replayable schedule.
//!
//! The schedule is the list of decisions with site `"sched"`; alternative 0 always means
//! "the current thread keeps running" when it is able to, so an all-zero schedule is the
//! sequential one and shrinking towards zeros removes context switches.

use crate::decide::Decisions;
use std::any::Any;
use std::cell::RefCell;
use std::sync::{Arc, Condvar, Mutex, MutexGuard};

/// Unwind payload used to tear down simulated threads after a deadlock / step-limit verdict.
pub struct SimAbort;

#[derive(Clone, Copy, PartialEq, Eq, Debug)]
enum St {
    Runnable,
    Blocked(u64),
    Done,
}

#[derive(Clone, Debug, PartialEq, Eq)]
pub enum Abort {
    /// (thread, wait key) of every blocked thread at the moment nobody could run
    Deadlock(Vec<(usize, u64)>),
    StepLimit(u64),
}

#[derive(Clone, Debug, PartialEq, Eq)]
pub struct Ev {
    pub tid: usize,
    pub what: String,
}

struct WState {
    cur: usize,
    st: Vec<St>,
    dec: Decisions,
    abort: Option<Abort>,
    steps: u64,
    max_steps: u64,
    switches: u64,
    blocks: u64,
    log: Vec<Ev>,
    keep: (u64, u64),
}

pub struct World {
    m: Mutex<WState>,
    cv: Condvar,
}

thread_local! {
    static CTX: RefCell<Option<(Arc<World>, usize)>> = const { RefCell::new(None) };
}

/// The world and thread id of the calling simulated thread, if it is one.
pub fn current() -> Option<(Arc<World>, usize)> {
    CTX.with(|c| c.borrow().clone())
}

pub fn in_sim() -> bool {
    CTX.with(|c| c.borrow().is_some())
}

const NOBODY: usize = usize::MAX;

impl World {
    fn lock(&self) -> MutexGuard<'_, WState> {
        self.m.lock().unwrap_or_else(|e| e.into_inner())
    }

    fn abort_unwind(g: MutexGuard<'_, WState>) -> ! {
        drop(g);
        std::panic::resume_unwind(Box::new(SimAbort));
    }

    /// Wait (holding no baton) until it is `me`'s turn or the run is aborted.
    fn wait_turn<'a>(&'a self, mut g: MutexGuard<'a, WState>, me: usize) -> MutexGuard<'a, WState> {
        while g.cur != me && g.abort.is_none() {
            g = self.cv.wait(g).unwrap_or_else(|e| e.into_inner());
        }
        if g.abort.is_some() {
            Self::abort_unwind(g);
        }
        g
    }

    pub fn log(&self, tid: usize, what: String) {
        let mut g = self.lock();
        if g.abort.is_some() {
            // the run is being torn down: the threads unwind concurrently and what their
            // destructors do is no longer ordered by the scheduler
            return;
        }
        g.log.push(Ev { tid, what });
    }

    /// Draw a non-scheduling decision (fault choice, adversarial callback answer …) from the
    /// run's decision source, from inside a simulated thread.
    pub fn choose(&self, site: &str, bound: u64) -> u64 {
        self.lock().dec.choose(site, bound)
    }

    /// A scheduling point: somebody (possibly the caller) continues.
    pub fn yield_point(&self, me: usize) {
        let mut g = self.lock();
        if g.abort.is_some() {
            Self::abort_unwind(g);
        }
        g.steps += 1;
        if g.steps > g.max_steps {
            let s = g.steps;
            g.abort = Some(Abort::StepLimit(s));
            self.cv.notify_all();
            Self::abort_unwind(g);
        }
        let mut cand = vec![me];
        for (i, s) in g.st.iter().enumerate() {
            if i != me && *s == St::Runnable {
                cand.push(i);
            }
        }
        let (kn, kd) = g.keep;
        let k = g.dec.choose_biased("sched", cand.len() as u64, kn, kd) as usize;
        let next = cand[k];
        if next != me {
            g.switches += 1;
            g.cur = next;
            self.cv.notify_all();
            let _g = self.wait_turn(g, me);
        }
    }

    /// Park the caller until `wake(key)`; returns when the caller has been woken *and* chosen.
    /// The caller re-checks its condition afterwards.
    pub fn block(&self, me: usize, key: u64) {
        let mut g = self.lock();
        if g.abort.is_some() {
            Self::abort_unwind(g);
        }
        g.steps += 1;
        g.blocks += 1;
        g.st[me] = St::Blocked(key);
        let cand: Vec<usize> = g
            .st
            .iter()
            .enumerate()
            .filter(|(_, s)| **s == St::Runnable)
            .map(|(i, _)| i)
            .collect();
        if cand.is_empty() {
            let blocked = g
                .st
                .iter()
                .enumerate()
                .filter_map(|(i, s)| match s {
                    St::Blocked(k) => Some((i, *k)),
                    _ => None,
                })
                .collect();
            g.abort = Some(Abort::Deadlock(blocked));
            self.cv.notify_all();
            Self::abort_unwind(g);
        }
        let k = g.dec.choose("sched", cand.len() as u64) as usize;
        g.switches += 1;
        g.cur = cand[k];
        self.cv.notify_all();
        let _g = self.wait_turn(g, me);
    }

    /// Make every thread blocked on `key` runnable. Not a scheduling point.
    pub fn wake(&self, key: u64) {
        let mut g = self.lock();
        for s in g.st.iter_mut() {
            if *s == St::Blocked(key) {
                *s = St::Runnable;
            }
        }
    }

    fn finish(&self, me: usize) {
        let mut g = self.lock();
        g.st[me] = St::Done;
        if g.abort.is_some() {
            return;
        }
        let cand: Vec<usize> = g
            .st
            .iter()
            .enumerate()
            .filter(|(_, s)| **s == St::Runnable)
            .map(|(i, _)| i)
            .collect();
        if cand.is_empty() {
            let blocked: Vec<(usize, u64)> = g
                .st
                .iter()
                .enumerate()
                .filter_map(|(i, s)| match s {
                    St::Blocked(k) => Some((i, *k)),
                    _ => None,
                })
                .collect();
            if blocked.is_empty() {
                g.cur = NOBODY;
            } else {
                g.abort = Some(Abort::Deadlock(blocked));
            }
        } else {
            let k = g.dec.choose("sched", cand.len() as u64) as usize;
            g.cur = cand[k];
        }
        self.cv.notify_all();
    }
}

pub type Payload = Box<dyn Any + Send + 'static>;

pub struct Outcome {
    pub abort: Option<Abort>,
    /// per thread: Ok(()) or the unwind payload (a `SimAbort` after an abort, otherwise the
    /// panic payload of the code that ran in the thread)
    pub threads: Vec<Result<(), Payload>>,
    pub decisions: Decisions,
    pub log: Vec<Ev>,
    pub steps: u64,
    pub switches: u64,
    pub blocks: u64,
}

impl Outcome {
    pub fn thread_panic_message(&self, tid: usize) -> Option<String> {
        match &self.threads[tid] {
            Ok(()) => None,
            Err(p) => {
                if p.is::<SimAbort>() {
                    None
                } else {
                    Some(crate::panics::payload_to_string(p.as_ref()))
                }
            }
        }
    }
    pub fn log_signature(&self) -> u64 {
        let mut h = crate::Fnv::new();
        for e in &self.log {
            h.u64(e.tid as u64).str(&e.what);
        }
        h.finish()
    }
}

pub struct Config {
    pub max_steps: u64,
    /// probability (num, den) that a scheduling point keeps the current thread running
    pub keep: (u64, u64),
}

impl Default for Config {
    fn default() -> Self {
        Config {
            max_steps: 200_000,
            keep: (1, 2),
        }
    }
}

/// Run the given bodies as simulated threads (thread id = index) to completion.
pub fn run<'a>(
    dec: Decisions,
    cfg: &Config,
    bodies: Vec<Box<dyn FnOnce() + Send + 'a>>,
) -> Outcome {
    let n = bodies.len();
    assert!(n > 0);
    let world = Arc::new(World {
        m: Mutex::new(WState {
            cur: NOBODY,
            st: vec![St::Runnable; n],
            dec,
            abort: None,
            steps: 0,
            max_steps: cfg.max_steps,
            switches: 0,
            blocks: 0,
            log: Vec::new(),
            keep: cfg.keep,
        }),
        cv: Condvar::new(),
    });
    {
        let mut g = world.lock();
        let first = g.dec.choose("sched", n as u64) as usize;
        g.cur = first;
    }
    let mut results: Vec<Result<(), Payload>> = Vec::with_capacity(n);
    std::thread::scope(|scope| {
        let mut handles = Vec::with_capacity(n);
        for (tid, body) in bodies.into_iter().enumerate() {
            let w = world.clone();
            handles.push(scope.spawn(move || {
                CTX.with(|c| *c.borrow_mut() = Some((w.clone(), tid)));
                let r = std::panic::catch_unwind(std::panic::AssertUnwindSafe(|| {
                    {
                        let g = w.lock();
                        let _g = w.wait_turn(g, tid);
                    }
                    body();
                }));
                // `body` and everything it owned is dropped by now (channel ends included)
                w.finish(tid);
                CTX.with(|c| *c.borrow_mut() = None);
                r
            }));
        }
        for h in handles {
            results.push(h.join().unwrap_or_else(Err));
        }
    });
    let w = Arc::try_unwrap(world).unwrap_or_else(|_| panic!("world still shared after join"));
    let st = w.m.into_inner().unwrap_or_else(|e| e.into_inner());
    Outcome {
        abort: st.abort,
        threads: results,
        decisions: st.dec,
        log: st.log,
        steps: st.steps,
        switches: st.switches,
        blocks: st.blocks,
    }
}
