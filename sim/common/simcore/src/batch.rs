//! Generic batch driver: seeded search over many simulated runs of one scenario, with
//! in-process double-execution (determinism audit), violation shrinking, replay files and a
//! partial-evidence record.

use crate::decide::Decisions;
use crate::report::{Known, ReplayFile, Violation};
use crate::rng::{mix, Rng};
use crate::shrink::{shrink_decisions, Budget};
use serde::de::DeserializeOwned;
use serde::Serialize;
use serde_json::json;
use std::collections::{BTreeMap, HashSet};
use std::path::{Path, PathBuf};
use std::sync::atomic::{AtomicBool, AtomicU64, Ordering};
use std::sync::Mutex;
use std::time::Instant;

#[derive(Default, Clone, Debug)]
pub struct Stats {
    pub sum: BTreeMap<String, u64>,
    pub max: BTreeMap<String, u64>,
}

impl Stats {
    pub fn add(&mut self, k: &str, v: u64) {
        *self.sum.entry(k.to_string()).or_insert(0) += v;
    }
    pub fn inc(&mut self, k: &str) {
        self.add(k, 1);
    }
    pub fn max(&mut self, k: &str, v: u64) {
        let e = self.max.entry(k.to_string()).or_insert(0);
        if v > *e {
            *e = v;
        }
    }
    pub fn merge(&mut self, o: &Stats) {
        for (k, v) in &o.sum {
            *self.sum.entry(k.clone()).or_insert(0) += v;
        }
        for (k, v) in &o.max {
            let e = self.max.entry(k.clone()).or_insert(0);
            if *v > *e {
                *e = *v;
            }
        }
    }
}

pub struct RunResult {
    pub violation: Option<Violation>,
    /// decisions actually taken (for the replay file)
    pub decisions: Vec<u64>,
    /// signature of the decisions taken + events observed: two runs with different signatures
    /// explored different interleavings / fault sequences / histories
    pub signature: u64,
    /// hash of the full canonical event log; must be identical when the same (case, decisions)
    /// is executed again
    pub log_hash: u64,
    /// did at least one simulator-owned event fire (the scenario's own rule)
    pub nontrivial: bool,
    pub stats: Stats,
}

pub trait Scenario: Sync {
    type Case: Serialize + DeserializeOwned + Clone + Send + Sync;
    fn name(&self) -> &'static str;
    fn property(&self) -> &'static str;
    /// which simulator-owned event makes a run non-trivial, and how distinctness is counted
    fn rule(&self) -> String;
    fn generate(&self, rng: &mut Rng, tier_thorough: bool) -> Self::Case;
    fn execute(&self, case: &Self::Case, dec: Decisions) -> RunResult;
    /// structurally simpler cases, most aggressive first
    fn simplify(&self, case: &Self::Case) -> Vec<Self::Case>;
    /// components that ran real code / stubs, for the evidence
    fn components(&self) -> serde_json::Value;
    /// Does the property itself demand that re-executing the same case gives the same log
    /// (then a divergence is a violation of the property, not a harness error)?
    fn nondeterminism_is_violation(&self) -> bool {
        false
    }
}

pub struct BatchCfg {
    pub seed: u64,
    pub thorough: bool,
    pub max_runs: u64,
    pub budget_s: f64,
    pub workers: usize,
    /// execute every k-th run twice and compare (0 = never)
    pub audit_every: u64,
    pub known: Known,
    pub replay_dir: PathBuf,
    pub engine: String,
    /// write one line per run (index, case hash, signature, log hash, verdict) here
    pub sig_file: Option<PathBuf>,
    /// this process executes run indices i with i % shard.1 == shard.0
    pub shard: (u64, u64),
    /// write the set of distinct non-trivial (case, signature) hashes here (u64 LE), so that a
    /// parent process can count distinct cases across shards exactly
    pub distinct_file: Option<PathBuf>,
    /// the index of the run about to be executed is written here (a run that aborts the whole
    /// process — stack overflow, abort — can then be named by the parent)
    pub progress_file: Option<PathBuf>,
}

pub struct Found<C> {
    pub run_index: u64,
    pub case: C,
    pub decisions: Vec<u64>,
    /// set when the run's process died and its decisions are unknown: replay draws them again
    pub decision_seed: Option<u64>,
    pub violation: Violation,
}

pub struct BatchOut {
    /// run indices during which a shard process died (signal / abort)
    pub crashed_runs: Vec<(u64, String)>,
    pub partial: serde_json::Value,
    /// lines to print (VIOLATION / KNOWN-FINDING)
    pub lines: Vec<String>,
    pub violations: u64,
    pub harness_errors: Vec<String>,
}

static PROGRESS: Mutex<Option<(PathBuf, u64, u64)>> = Mutex::new(None);

/// Tell the parent's hang watchdog that this shard is alive (shrinking and confirming a
/// violation executes many runs without starting a new batch run).
pub fn heartbeat() {
    if let Ok(mut g) = PROGRESS.lock() {
        if let Some((p, i, n)) = g.as_mut() {
            *n += 1;
            let _ = std::fs::write(&*p, format!("{i} busy{n}"));
        }
    }
}

fn progress_start(cfg_file: &Option<PathBuf>, i: u64) {
    if let Some(p) = cfg_file {
        let _ = std::fs::write(p, format!("{i}"));
        if let Ok(mut g) = PROGRESS.lock() {
            *g = Some((p.clone(), i, 0));
        }
    }
}

pub fn case_hash<C: Serialize>(c: &C) -> u64 {
    crate::fnv_str(&serde_json::to_string(c).unwrap())
}

fn exec_twice_same<S: Scenario>(s: &S, case: &S::Case, decisions: &[u64], first: &RunResult) -> Option<String> {
    let again = s.execute(case, Decisions::replay(decisions.to_vec()));
    if again.log_hash != first.log_hash
        || again.signature != first.signature
        || again.violation.as_ref().map(|v| (&v.oracle, &v.class))
            != first.violation.as_ref().map(|v| (&v.oracle, &v.class))
    {
        Some(format!(
            "re-execution diverged: log {:x} vs {:x}, sig {:x} vs {:x}, verdict {:?} vs {:?}",
            first.log_hash,
            again.log_hash,
            first.signature,
            again.signature,
            first.violation.as_ref().map(|v| format!("{}/{}", v.oracle, v.class)),
            again.violation.as_ref().map(|v| format!("{}/{}", v.oracle, v.class)),
        ))
    } else {
        None
    }
}

/// What two executions of one (case, decisions) are compared by.
fn fingerprint(r: &RunResult) -> (u64, u64, Option<(String, String)>) {
    (r.log_hash, r.signature, r.violation.as_ref().map(|v| (v.oracle.clone(), v.class.clone())))
}

pub fn run_batch<S: Scenario>(s: &S, cfg: &BatchCfg) -> BatchOut {
    let t0 = Instant::now();
    let next = AtomicU64::new(0);
    let stop = AtomicBool::new(false);
    struct Agg<C> {
        stats: Stats,
        distinct: HashSet<u64>,
        distinct_sched: HashSet<u64>,
        evaluations: u64,
        nontrivial: u64,
        audited: u64,
        found: Vec<Found<C>>,
        known_hits: BTreeMap<String, (u64, String, u64)>,
        samples: Vec<serde_json::Value>,
        harness_errors: Vec<String>,
        sig_lines: Vec<(u64, String)>,
    }
    let agg: Mutex<Agg<S::Case>> = Mutex::new(Agg {
        stats: Stats::default(),
        distinct: HashSet::new(),
        distinct_sched: HashSet::new(),
        evaluations: 0,
        nontrivial: 0,
        audited: 0,
        found: Vec::new(),
        known_hits: BTreeMap::new(),
        samples: Vec::new(),
        harness_errors: Vec::new(),
        sig_lines: Vec::new(),
    });
    let prop_tag = crate::fnv_str(&format!("{}:{}", s.property(), s.name()));
    std::thread::scope(|scope| {
        for _w in 0..cfg.workers.max(1) {
            scope.spawn(|| {
                let mut local = Stats::default();
                let mut local_eval = 0u64;
                loop {
                    if stop.load(Ordering::Relaxed) {
                        break;
                    }
                    let i = next.fetch_add(1, Ordering::Relaxed) * cfg.shard.1 + cfg.shard.0;
                    if i >= cfg.max_runs {
                        break;
                    }
                    if cfg.budget_s > 0.0 && t0.elapsed().as_secs_f64() > cfg.budget_s {
                        break;
                    }
                    progress_start(&cfg.progress_file, i);
                    let run_seed = mix(mix(cfg.seed, prop_tag), i);
                    let mut rng = Rng::new(run_seed);
                    let case = s.generate(&mut rng, cfg.thorough);
                    let dec = Decisions::generate(mix(run_seed, 0xdec1));
                    // panics of the code under test are caught inside the scenarios; one that
                    // arrives here is a bug of the harness itself and must not pass for a crash
                    // of the code under test
                    let r = match std::panic::catch_unwind(std::panic::AssertUnwindSafe(|| s.execute(&case, dec))) {
                        Ok(r) => r,
                        Err(p) => {
                            let msg = crate::panics::take_last().unwrap_or_else(|| crate::panics::payload_to_string(p.as_ref()));
                            let mut g = agg.lock().unwrap();
                            g.harness_errors.push(format!("run {i} (seed {run_seed}): the harness itself panicked: {msg}"));
                            stop.store(true, Ordering::Relaxed);
                            break;
                        }
                    };
                    local_eval += 1;
                    local.merge(&r.stats);
                    let ch = case_hash(&case);
                    let audit = cfg.audit_every > 0 && i % cfg.audit_every == 0;
                    let mut div = None;
                    let mut transient = false;
                    if audit {
                        div = exec_twice_same(s, &case, &r.decisions, &r);
                        if div.is_some() && !s.nondeterminism_is_violation() {
                            // a divergence must be reproducible to count: two more replays of the
                            // same decisions. If both agree with the first execution, the one
                            // divergent execution was a transient of the harness (recorded in the
                            // evidence, not an error); otherwise the divergence stands.
                            let again1 = exec_twice_same(s, &case, &r.decisions, &r);
                            let again2 = exec_twice_same(s, &case, &r.decisions, &r);
                            if again1.is_none() && again2.is_none() {
                                transient = true;
                                div = None;
                            } else {
                                // the odd one out may have been the *first* execution: three
                                // further executions that agree with one another (and carry no
                                // verdict the first one lacks) make the first the transient
                                let x: Vec<_> = (0..3).map(|_| fingerprint(&s.execute(&case, Decisions::replay(r.decisions.clone())))).collect();
                                if x[0] == x[1] && x[1] == x[2] && x[0].2 == fingerprint(&r).2 {
                                    transient = true;
                                    div = None;
                                }
                            }
                        }
                    }
                    let mut g = agg.lock().unwrap();
                    if audit {
                        g.audited += 1;
                    }
                    if transient {
                        g.stats.inc("audit_transient_divergence_not_reproduced");
                    }
                    let mut r = r;
                    if let Some(d) = div {
                        if s.nondeterminism_is_violation() {
                            if r.violation.is_none() {
                                r.violation = Some(Violation::new("determinism", "re-execution-differs", d));
                            }
                        } else {
                            g.harness_errors
                                .push(format!("run {i} (seed {run_seed}): {d}"));
                            stop.store(true, Ordering::Relaxed);
                        }
                    }
                    if r.nontrivial {
                        g.nontrivial += 1;
                        g.distinct.insert(ch ^ r.signature.rotate_left(17));
                        g.distinct_sched.insert(r.signature);
                    }
                    if cfg.sig_file.is_some() {
                        g.sig_lines.push((
                            i,
                            format!(
                                "{i} {ch:016x} {:016x} {:016x} {}",
                                r.signature,
                                r.log_hash,
                                r.violation
                                    .as_ref()
                                    .map(|v| format!("{}/{}", v.oracle, v.class))
                                    .unwrap_or_else(|| "ok".into())
                            ),
                        ));
                    }
                    if g.samples.len() < 3 && r.nontrivial && r.violation.is_none() {
                        g.samples.push(json!({
                            "run_index": i,
                            "plan": serde_json::to_value(&case).unwrap(),
                            "decisions": r.decisions,
                        }));
                    }
                    if let Some(v) = r.violation {
                        if let Some(k) = cfg.known.find(s.property(), &v.key) {
                            let e = g
                                .known_hits
                                .entry(v.key.clone())
                                .or_insert((0, k.text.clone(), i));
                            e.0 += 1;
                            if i < e.2 {
                                e.2 = i;
                            }
                        } else {
                            let died = v.oracle == "no-crash";
                            g.found.push(Found {
                                run_index: i,
                                case,
                                decisions: r.decisions,
                                decision_seed: if died { Some(mix(run_seed, 0xdec1)) } else { None },
                                violation: v,
                            });
                            stop.store(true, Ordering::Relaxed);
                        }
                    }
                }
                let mut g = agg.lock().unwrap();
                g.stats.merge(&local);
                g.evaluations += local_eval;
            });
        }
    });
    let mut g = agg.into_inner().unwrap();
    let wall = t0.elapsed().as_secs_f64();
    let mut lines = Vec::new();
    let mut violations = 0u64;
    let mut harness_errors = std::mem::take(&mut g.harness_errors);

    if let Some(p) = &cfg.sig_file {
        g.sig_lines.sort();
        let text: String = g.sig_lines.iter().map(|(_, l)| format!("{l}\n")).collect();
        let _ = std::fs::write(p, text);
    }

    if let Some(p) = &cfg.distinct_file {
        let mut bytes = Vec::with_capacity(g.distinct.len() * 16);
        for h in &g.distinct {
            bytes.extend_from_slice(&h.to_le_bytes());
        }
        let _ = std::fs::write(p, bytes);
        let mut bytes = Vec::with_capacity(g.distinct_sched.len() * 8);
        for h in &g.distinct_sched {
            bytes.extend_from_slice(&h.to_le_bytes());
        }
        let _ = std::fs::write(p.with_extension("sched"), bytes);
    }

    for (key, (n, text, first)) in &g.known_hits {
        lines.push(format!(
            "KNOWN-FINDING: property={} key={} occurrences={} first_run={} {}",
            s.property(),
            key,
            n,
            first,
            text
        ));
    }

    // distinct violation kinds, smallest run index first
    g.found.sort_by_key(|f| f.run_index);
    let mut seen: Vec<Violation> = Vec::new();
    let mut replay_paths = Vec::new();
    for f in g.found.iter() {
        if seen.iter().any(|v| v.same_kind(&f.violation)) {
            continue;
        }
        seen.push(f.violation.clone());
        if seen.len() > 4 {
            break;
        }
        violations += 1;
        let (case, decisions, viol, shrink_info) = if f.decision_seed.is_some() {
            (f.case.clone(), Vec::new(), f.violation.clone(), json!({"note": "not shrunk: the run's process died"}))
        } else {
            shrink_found(s, f)
        };
        let path = cfg.replay_dir.join(format!(
            "{}-{}-{}-{}.json",
            s.property(),
            s.name(),
            cfg.seed,
            f.run_index
        ));
        let rf = ReplayFile {
            engine: cfg.engine.clone(),
            property: s.property().to_string(),
            scenario: s.name().to_string(),
            seed: cfg.seed,
            run_index: f.run_index,
            plan: serde_json::to_value(&case).unwrap(),
            decisions,
            decision_seed: f.decision_seed,
            violation: viol.clone(),
            shrink: shrink_info,
        };
        if let Err(e) =
            crate::report::write_json_atomic(&path, &serde_json::to_value(&rf).unwrap())
        {
            harness_errors.push(format!("cannot write replay file {}: {e}", path.display()));
            continue;
        }
        // confirm in a fresh process; a violation that stems from hash-iteration order (which
        // std randomises per process and the framework varies but cannot control) may need
        // several fresh processes to show again
        heartbeat();
        let mut confirmed = replay_in_fresh_process(&path);
        let mut tries = 1;
        while tries < 12 && !matches!(&confirmed, Ok(Some(v)) if v.same_kind(&viol)) {
            heartbeat();
            confirmed = replay_in_fresh_process(&path);
            tries += 1;
        }
        match confirmed {
            Ok(Some(v)) if v.same_kind(&viol) => {
                if tries > 1 {
                    lines.push(format!(
                        "NOTE property={} replay={} reproduced only on fresh-process attempt {} (depends on per-process hash order)",
                        s.property(),
                        path.display(),
                        tries
                    ));
                }
                lines.push(format!(
                    "VIOLATION property={} replay={}",
                    s.property(),
                    path.display()
                ));
                lines.push(format!(
                    "  oracle={} class={} key={} :: {}",
                    viol.oracle, viol.class, viol.key, viol.message
                ));
                replay_paths.push(path.display().to_string());
            }
            Ok(other) if s.nondeterminism_is_violation() => {
                // observed in this process, not shown again by 12 fresh processes (possibly
                // after shrinking changed addresses / allocation patterns): the behaviour
                // depends on state outside (case, decisions), which is what this property forbids
                lines.push(format!(
                    "VIOLATION property={} replay={}",
                    s.property(),
                    path.display()
                ));
                lines.push(format!(
                    "  oracle=determinism class=not-reproducible key=determinism/not-reproducible :: observed {}/{} ({}) in-process, but {} fresh processes replaying the same case and decisions showed {:?}: the answer depends on state outside the call sequence (addresses, hash order, allocator), which itself violates re-execution equality",
                    viol.oracle,
                    viol.class,
                    viol.message.chars().take(200).collect::<String>(),
                    tries,
                    other.map(|v| format!("{}/{}", v.oracle, v.class))
                ));
                replay_paths.push(path.display().to_string());
            }
            Ok(other) => harness_errors.push(format!(
                "replay of {} in a fresh process did not reproduce {}/{} (got {:?})",
                path.display(),
                viol.oracle,
                viol.class,
                other.map(|v| format!("{}/{}", v.oracle, v.class))
            )),
            Err(e) => harness_errors.push(format!("replay process failed: {e}")),
        }
    }

    let per_hour = if wall > 0.0 {
        (g.evaluations as f64 / wall * 3600.0) as u64
    } else {
        0
    };
    let partial = json!({
        "property_id": s.property(),
        "scenario": s.name(),
        "engine": cfg.engine,
        "seed": cfg.seed,
        "tier": if cfg.thorough { "thorough" } else { "quick" },
        "evaluations": g.evaluations,
        "nontrivial_runs": g.nontrivial,
        "distinct_nontrivial": g.distinct.len(),
        "distinct_schedule_signatures": g.distinct_sched.len(),
        "rule": s.rule(),
        "samples": g.samples,
        "runs_per_hour": per_hour,
        "seeds_per_hour": per_hour,
        "wall_s": wall,
        "workers": cfg.workers,
        "determinism_pairs_in_process": g.audited,
        "events_sum": g.stats.sum,
        "events_max": g.stats.max,
        "known_findings_hit": g.known_hits.iter().map(|(k,(n,text,first))| json!({"key":k,"occurrences":n,"first_run":first,"text":text})).collect::<Vec<_>>(),
        "violations": violations,
        "replays": replay_paths,
        "components": s.components(),
        "harness_errors": harness_errors,
    });
    BatchOut {
        crashed_runs: Vec::new(),
        partial,
        lines,
        violations,
        harness_errors,
    }
}

/// The case and decision seed of run `i` of a batch, exactly as the worker derives them.
pub fn case_of_run<S: Scenario>(s: &S, seed: u64, i: u64, thorough: bool) -> (S::Case, u64) {
    let prop_tag = crate::fnv_str(&format!("{}:{}", s.property(), s.name()));
    let run_seed = mix(mix(seed, prop_tag), i);
    let mut rng = Rng::new(run_seed);
    (s.generate(&mut rng, thorough), mix(run_seed, 0xdec1))
}

/// Execute once — or, where re-execution equality is part of the property, twice — and report
/// the violation seen.
fn execute_judged<S: Scenario>(s: &S, case: &S::Case, decisions: &[u64]) -> RunResult {
    let mut r = s.execute(case, Decisions::replay(decisions.to_vec()));
    if r.violation.is_none() && s.nondeterminism_is_violation() {
        if let Some(d) = exec_twice_same(s, case, &r.decisions.clone(), &r) {
            r.violation = Some(Violation::new("determinism", "re-execution-differs", d));
        }
    }
    r
}

fn still_fails<S: Scenario>(s: &S, case: &S::Case, decisions: &[u64], want: &Violation) -> Option<(Vec<u64>, Violation)> {
    heartbeat();
    let r = execute_judged(s, case, decisions);
    match r.violation {
        Some(v) if v.same_kind(want) => Some((r.decisions, v)),
        _ => None,
    }
}

pub fn shrink_found<S: Scenario>(
    s: &S,
    f: &Found<S::Case>,
) -> (S::Case, Vec<u64>, Violation, serde_json::Value) {
    let t0 = Instant::now();
    let limit_s = 60.0;
    let mut case = f.case.clone();
    let mut decisions = f.decisions.clone();
    let mut viol = f.violation.clone();
    let before_case = serde_json::to_string(&case).unwrap().len();
    let before_dec = decisions.len();
    let mut attempts = 0u64;
    // alternate: structural simplification, then decision shrinking, until a fixpoint
    for _round in 0..6 {
        let mut progress = false;
        'outer: loop {
            if t0.elapsed().as_secs_f64() > limit_s {
                break;
            }
            for cand in s.simplify(&case) {
                attempts += 1;
                if let Some((d, v)) = still_fails(s, &cand, &decisions, &viol) {
                    case = cand;
                    decisions = d;
                    viol = v;
                    progress = true;
                    continue 'outer;
                }
                if t0.elapsed().as_secs_f64() > limit_s {
                    break 'outer;
                }
            }
            break;
        }
        let mut b = Budget::new(600);
        let before = decisions.clone();
        let shrunk = shrink_decisions(&decisions, &mut b, |cand| {
            attempts += 1;
            still_fails(s, &case, cand, &viol).is_some()
        });
        if let Some((_, v)) = still_fails(s, &case, &shrunk, &viol) {
            if shrunk != before {
                progress = true;
            }
            decisions = shrunk;
            viol = v;
        }
        if !progress || t0.elapsed().as_secs_f64() > limit_s {
            break;
        }
    }
    let info = json!({
        "case_json_bytes_before": before_case,
        "case_json_bytes_after": serde_json::to_string(&case).unwrap().len(),
        "decisions_before": before_dec,
        "decisions_after": decisions.len(),
        "attempts": attempts,
        "seconds": t0.elapsed().as_secs_f64(),
    });
    (case, decisions, viol, info)
}

/// Execute a replay file with the given scenario; prints nothing.
pub fn replay_case<S: Scenario>(s: &S, rf: &ReplayFile) -> Result<RunResult, String> {
    let case: S::Case =
        serde_json::from_value(rf.plan.clone()).map_err(|e| format!("bad plan in replay file: {e}"))?;
    if let Some(ds) = rf.decision_seed {
        return Ok(s.execute(&case, Decisions::generate(ds)));
    }
    Ok(execute_judged(s, &case, &rf.decisions))
}

/// `<this exe> replay <path>` must print a line `REPLAY-VERDICT <json violation or null>`.
pub fn replay_in_fresh_process(path: &Path) -> Result<Option<Violation>, String> {
    let exe = std::env::current_exe().map_err(|e| e.to_string())?;
    let out_path = std::env::temp_dir().join(format!("verif-replay-{}-{}.out", std::process::id(), crate::fnv_str(&path.display().to_string())));
    let mut child = std::process::Command::new(exe)
        .arg("replay")
        .arg(path)
        .env("VERIF_REPLAY_CHILD", "1")
        .stdout(std::fs::File::create(&out_path).map_err(|e| e.to_string())?)
        .stderr(std::process::Stdio::piped())
        .spawn()
        .map_err(|e| e.to_string())?;
    let t0 = Instant::now();
    let mut timed_out = false;
    loop {
        match child.try_wait() {
            Ok(Some(_)) => break,
            Ok(None) => {
                if t0.elapsed().as_secs() > HANG_CAP_S + 30 {
                    let _ = child.kill();
                    timed_out = true;
                    break;
                }
                std::thread::sleep(std::time::Duration::from_millis(20));
            }
            Err(e) => return Err(e.to_string()),
        }
    }
    let out = child.wait_with_output().map_err(|e| e.to_string())?;
    let stdout_text = std::fs::read_to_string(&out_path).unwrap_or_default();
    let _ = std::fs::remove_file(&out_path);
    if timed_out {
        return Ok(Some(process_aborted(&format!("the run did not end within {} s of real time", HANG_CAP_S + 30))));
    }
    let out = std::process::Output { status: out.status, stdout: stdout_text.into_bytes(), stderr: out.stderr };
    let text = String::from_utf8_lossy(&out.stdout);
    for l in text.lines() {
        if let Some(j) = l.strip_prefix("REPLAY-VERDICT ") {
            return serde_json::from_str::<Option<Violation>>(j).map_err(|e| e.to_string());
        }
    }
    if !matches!(out.status.code(), Some(0) | Some(1) | Some(2)) {
        return Ok(Some(process_aborted(&format!(
            "exit {:?}: {}",
            out.status.code(),
            String::from_utf8_lossy(&out.stderr).trim().lines().last().unwrap_or("")
        ))));
    }
    Err(format!(
        "no REPLAY-VERDICT line (exit {:?}): {}{}",
        out.status.code(),
        text,
        String::from_utf8_lossy(&out.stderr)
    ))
}


fn read_u64s(p: &Path) -> Vec<u64> {
    std::fs::read(p)
        .map(|b| {
            b.chunks_exact(8)
                .map(|c| u64::from_le_bytes(c.try_into().unwrap()))
                .collect()
        })
        .unwrap_or_default()
}

/// Parent side of process-level sharding: re-execute this binary `workers` times with
/// `--shard k/n --workers 1`, wait, merge the partial records. (Simulated threads are real OS
/// threads created per run; many spawning threads inside one process contend on the address
/// space lock, separate processes do not.)
///
/// Returns (merged partial, lines to print, violations, harness errors).
/// real-time cap without progress after which a shard is considered to execute a run that never ends
pub const HANG_CAP_S: u64 = 200;

pub fn run_sharded(
    args: &[String],
    workers: usize,
    work_dir: &Path,
    tag: &str,
    sig_file: Option<&Path>,
) -> BatchOut {
    let t0 = Instant::now();
    let exe = std::env::current_exe().expect("current_exe");
    let _ = std::fs::create_dir_all(work_dir);
    let mut children: Vec<(usize, std::process::Child, PathBuf, PathBuf)> = Vec::new();
    for k in 0..workers {
        let partial = work_dir.join(format!("{tag}.shard{k}.json"));
        let distinct = work_dir.join(format!("{tag}.shard{k}.distinct"));
        let _ = std::fs::remove_file(&partial);
        let mut cmd = std::process::Command::new(&exe);
        cmd.args(args)
            .arg("--shard")
            .arg(format!("{k}/{workers}"))
            .arg("--child-partial")
            .arg(&partial)
            .arg("--distinct-file")
            .arg(&distinct)
            .arg("--progress-file")
            .arg(work_dir.join(format!("{tag}.shard{k}.progress")))
            .stdout(std::fs::File::create(work_dir.join(format!("{tag}.shard{k}.stdout"))).map(std::process::Stdio::from).unwrap_or_else(|_| std::process::Stdio::null()))
            .stderr(std::fs::File::create(work_dir.join(format!("{tag}.shard{k}.stderr"))).map(std::process::Stdio::from).unwrap_or_else(|_| std::process::Stdio::null()));
        if let Some(s) = sig_file {
            cmd.arg("--child-sigs").arg(s.with_extension(format!("shard{k}")));
        }
        match cmd.spawn() {
            Ok(c) => children.push((k, c, partial, distinct)),
            Err(e) => {
                return BatchOut {
                    crashed_runs: Vec::new(),
                    partial: json!({}),
                    lines: vec![],
                    violations: 0,
                    harness_errors: vec![format!("cannot spawn shard {k}: {e}")],
                }
            }
        }
    }
    let mut lines = Vec::new();
    let mut harness_errors = Vec::new();
    let mut violations = 0u64;
    let mut merged: Option<serde_json::Value> = None;
    let mut distinct: HashSet<u64> = HashSet::new();
    let mut distinct_sched: HashSet<u64> = HashSet::new();
    let mut sig_lines: Vec<(u64, String)> = Vec::new();
    let mut found_lines: Vec<(String, String)> = Vec::new();
    let mut crashed_runs: Vec<(u64, String)> = Vec::new();
    let mut known: BTreeMap<String, (u64, u64, String)> = BTreeMap::new();
    // wait for the shards; a shard whose progress file has not changed for HANG_CAP_S seconds is
    // executing a run that never ends (a loop in the code under test that reaches no scheduling
    // point and no step hook): it is killed and the run it names is reported like a crash
    let mut statuses: Vec<Option<(Option<i32>, bool)>> = children.iter().map(|_| None).collect();
    {
        let mut last_progress: Vec<(String, Instant)> = children.iter().map(|_| (String::new(), Instant::now())).collect();
        let mut children_mut: Vec<&mut std::process::Child> = Vec::new();
        for c in children.iter_mut() {
            children_mut.push(&mut c.1);
        }
        loop {
            let mut all_done = true;
            for (idx, child) in children_mut.iter_mut().enumerate() {
                if statuses[idx].is_some() {
                    continue;
                }
                match child.try_wait() {
                    Ok(Some(st)) => statuses[idx] = Some((st.code(), false)),
                    Ok(None) => {
                        all_done = false;
                        let pp = work_dir.join(format!("{tag}.shard{idx}.progress"));
                        let cur = std::fs::read_to_string(&pp).unwrap_or_default();
                        if cur != last_progress[idx].0 {
                            last_progress[idx] = (cur, Instant::now());
                        } else if last_progress[idx].1.elapsed().as_secs() > HANG_CAP_S {
                            let _ = child.kill();
                            let _ = child.wait();
                            statuses[idx] = Some((None, true));
                        }
                    }
                    Err(_) => statuses[idx] = Some((None, false)),
                }
            }
            if all_done {
                break;
            }
            std::thread::sleep(std::time::Duration::from_millis(100));
        }
    }
    for (idx, (k, _child, partial, distinct_path)) in children.into_iter().enumerate() {
        let (code, hung) = statuses[idx].unwrap_or((None, false));
        let stdout = std::fs::read_to_string(work_dir.join(format!("{tag}.shard{k}.stdout"))).unwrap_or_default();
        let stderr = std::fs::read_to_string(work_dir.join(format!("{tag}.shard{k}.stderr"))).unwrap_or_default();
        let _ = std::fs::remove_file(work_dir.join(format!("{tag}.shard{k}.stdout")));
        let _ = std::fs::remove_file(work_dir.join(format!("{tag}.shard{k}.stderr")));
        let mut pending: Option<String> = None;
        for l in stdout.lines() {
            if l.starts_with("VIOLATION") {
                pending = Some(l.to_string());
            } else if l.starts_with("  oracle=") {
                if let Some(v) = pending.take() {
                    found_lines.push((v, l.to_string()));
                }
            }
        }
        let progress_path = work_dir.join(format!("{tag}.shard{k}.progress"));
        match code {
            Some(0) | Some(1) => {}
            Some(2) => harness_errors.push(format!("shard {k} exited with 2: {}", stderr.trim())),
            _ if hung => {
                match std::fs::read_to_string(&progress_path).ok().and_then(|t| t.split_whitespace().next().and_then(|x| x.parse::<u64>().ok())) {
                    Some(i) => crashed_runs.push((i, format!("the run did not end: its shard made no progress for {HANG_CAP_S} s of real time and was killed"))),
                    None => harness_errors.push(format!("shard {k} hung before its first run")),
                }
            }
            c => {
                // the process died (signal, abort, stack overflow): name the run it was executing
                match std::fs::read_to_string(&progress_path).ok().and_then(|t| t.split_whitespace().next().and_then(|x| x.parse::<u64>().ok())) {
                    Some(i) => crashed_runs.push((i, format!("exit {c:?}: {}", stderr.trim().lines().last().unwrap_or("")))),
                    None => harness_errors.push(format!("shard {k} died ({c:?}) before its first run: {}", stderr.trim())),
                }
            }
        }
        let _ = std::fs::remove_file(&progress_path);
        for l in stderr.lines() {
            if let Some(e) = l.strip_prefix("HARNESS-ERROR ") {
                harness_errors.push(format!("shard {k}: {e}"));
            }
        }
        let Ok(text) = std::fs::read_to_string(&partial) else {
            if !crashed_runs.iter().any(|_| true) {
                harness_errors.push(format!("shard {k} wrote no partial record"));
            }
            continue;
        };
        let Ok(p) = serde_json::from_str::<serde_json::Value>(&text) else {
            harness_errors.push(format!("shard {k}: unreadable partial record"));
            continue;
        };
        let _ = std::fs::remove_file(&partial);
        for h in read_u64s(&distinct_path) {
            distinct.insert(h);
        }
        for h in read_u64s(&distinct_path.with_extension("sched")) {
            distinct_sched.insert(h);
        }
        let _ = std::fs::remove_file(&distinct_path);
        let _ = std::fs::remove_file(distinct_path.with_extension("sched"));
        if let Some(s) = sig_file {
            let sp = s.with_extension(format!("shard{k}"));
            if let Ok(t) = std::fs::read_to_string(&sp) {
                for l in t.lines() {
                    let idx = l.split(' ').next().and_then(|x| x.parse().ok()).unwrap_or(0);
                    sig_lines.push((idx, l.to_string()));
                }
            }
            let _ = std::fs::remove_file(&sp);
        }
        violations += p["violations"].as_u64().unwrap_or(0);
        if let Some(arr) = p["known_findings_hit"].as_array() {
            for e in arr {
                let key = e["key"].as_str().unwrap_or("").to_string();
                let ent = known.entry(key).or_insert((0, u64::MAX, String::new()));
                ent.0 += e["occurrences"].as_u64().unwrap_or(0);
                ent.1 = ent.1.min(e["first_run"].as_u64().unwrap_or(u64::MAX));
                ent.2 = e["text"].as_str().unwrap_or("").to_string();
            }
        }
        match &mut merged {
            None => merged = Some(p),
            Some(m) => {
                for key in ["evaluations", "nontrivial_runs", "determinism_pairs_in_process"] {
                    m[key] = json!(m[key].as_u64().unwrap_or(0) + p[key].as_u64().unwrap_or(0));
                }
                if let (Some(ms), Some(ps)) = (m["events_sum"].as_object().cloned(), p["events_sum"].as_object()) {
                    let mut ms = ms;
                    for (k2, v) in ps {
                        let cur = ms.get(k2).and_then(|x| x.as_u64()).unwrap_or(0);
                        ms.insert(k2.clone(), json!(cur + v.as_u64().unwrap_or(0)));
                    }
                    m["events_sum"] = serde_json::Value::Object(ms);
                }
                if let (Some(ms), Some(ps)) = (m["events_max"].as_object().cloned(), p["events_max"].as_object()) {
                    let mut ms = ms;
                    for (k2, v) in ps {
                        let cur = ms.get(k2).and_then(|x| x.as_u64()).unwrap_or(0);
                        ms.insert(k2.clone(), json!(cur.max(v.as_u64().unwrap_or(0))));
                    }
                    m["events_max"] = serde_json::Value::Object(ms);
                }
                let mut samples = m["samples"].as_array().cloned().unwrap_or_default();
                if samples.len() < 3 {
                    for s in p["samples"].as_array().cloned().unwrap_or_default() {
                        if samples.len() < 3 {
                            samples.push(s);
                        }
                    }
                    m["samples"] = json!(samples);
                }
                let mut replays = m["replays"].as_array().cloned().unwrap_or_default();
                replays.extend(p["replays"].as_array().cloned().unwrap_or_default());
                m["replays"] = json!(replays);
            }
        }
    }
    // one report per violation kind (oracle/class/key): the one with the smallest run index
    {
        let kind = |detail: &str| -> String {
            detail.split(" :: ").next().unwrap_or("").trim().to_string()
        };
        let run_of = |vline: &str| -> u64 {
            vline
                .rsplit('-')
                .next()
                .and_then(|x| x.trim_end_matches(".json").parse().ok())
                .unwrap_or(u64::MAX)
        };
        found_lines.sort_by_key(|(v, _)| run_of(v));
        let mut kinds: Vec<String> = Vec::new();
        let mut kept = 0u64;
        for (v, d) in &found_lines {
            let k = kind(d);
            if kinds.contains(&k) {
                if let Some(p) = v.split("replay=").nth(1) {
                    let _ = std::fs::remove_file(p.trim());
                }
                continue;
            }
            kinds.push(k);
            kept += 1;
            lines.push(v.clone());
            lines.push(d.clone());
        }
        if !found_lines.is_empty() {
            violations = kept;
        }
    }
    if let Some(s) = sig_file {
        sig_lines.sort();
        let text: String = sig_lines.iter().map(|(_, l)| format!("{l}\n")).collect();
        let _ = std::fs::write(s, text);
    }
    let mut m = merged.unwrap_or_else(|| json!({}));
    let wall = t0.elapsed().as_secs_f64();
    let evals = m["evaluations"].as_u64().unwrap_or(0);
    let per_hour = if wall > 0.0 { (evals as f64 / wall * 3600.0) as u64 } else { 0 };
    m["distinct_nontrivial"] = json!(distinct.len());
    m["distinct_schedule_signatures"] = json!(distinct_sched.len());
    m["wall_s"] = json!(wall);
    m["workers"] = json!(workers);
    m["worker_kind"] = json!("processes");
    m["runs_per_hour"] = json!(per_hour);
    m["seeds_per_hour"] = json!(per_hour);
    m["violations"] = json!(violations);
    m["harness_errors"] = json!(harness_errors);
    let prop = m["property_id"].as_str().unwrap_or("?").to_string();
    m["known_findings_hit"] = json!(known
        .iter()
        .map(|(k, (n, first, text))| json!({"key": k, "occurrences": n, "first_run": first, "text": text}))
        .collect::<Vec<_>>());
    for (key, (n, first, text)) in &known {
        lines.push(format!(
            "KNOWN-FINDING: property={prop} key={key} occurrences={n} first_run={first} {text}"
        ));
    }
    crashed_runs.sort();
    BatchOut {
        crashed_runs,
        partial: m,
        lines,
        violations,
        harness_errors,
    }
}


pub fn process_aborted(detail: &str) -> Violation {
    Violation::new(
        "no-crash",
        "process-aborted",
        format!("the process executing this run died ({detail})"),
    )
}
