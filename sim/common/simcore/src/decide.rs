//! The decision source.
//!
//! Every dynamic choice of a run (who runs next, which fault fires, what an adversarial
//! callback answers) is drawn here. In *generate* mode values come from the run's PRNG and are
//! appended to the trace; in *replay* mode they are read back by position. A replayed value
//! that is missing or out of range becomes 0, which by convention is always the "plainest"
//! alternative (keep running the current thread, no fault, first candidate) — that is what
//! keeps a shrunk decision vector executable.

use crate::rng::Rng;
use serde::{Deserialize, Serialize};

#[derive(Clone, Debug, Serialize, Deserialize, PartialEq, Eq)]
pub struct Decision {
    /// site tag (informational; replay is positional)
    pub s: String,
    /// number of alternatives that were enabled
    pub b: u64,
    /// the alternative taken
    pub v: u64,
}

enum Mode {
    Gen(Rng),
    Replay { vals: Vec<u64>, pos: usize },
}

pub struct Decisions {
    mode: Mode,
    pub trace: Vec<Decision>,
    /// number of replayed positions that were missing / out of range (reported, not an error)
    pub fallbacks: u64,
}

impl Decisions {
    pub fn generate(seed: u64) -> Self {
        Decisions {
            mode: Mode::Gen(Rng::new(seed)),
            trace: Vec::new(),
            fallbacks: 0,
        }
    }

    pub fn replay(vals: Vec<u64>) -> Self {
        Decisions {
            mode: Mode::Replay { vals, pos: 0 },
            trace: Vec::new(),
            fallbacks: 0,
        }
    }

    pub fn is_replay(&self) -> bool {
        matches!(self.mode, Mode::Replay { .. })
    }

    /// Choose one of `bound` alternatives. `bound == 0` is a caller bug.
    pub fn choose(&mut self, site: &str, bound: u64) -> u64 {
        assert!(bound > 0, "decision with no alternatives at {site}");
        let v = match &mut self.mode {
            Mode::Gen(r) => r.below(bound),
            Mode::Replay { vals, pos } => {
                let v = match vals.get(*pos) {
                    Some(v) if *v < bound => *v,
                    _ => {
                        self.fallbacks += 1;
                        0
                    }
                };
                *pos += 1;
                v
            }
        };
        self.trace.push(Decision {
            s: site.to_string(),
            b: bound,
            v,
        });
        v
    }

    /// Biased choice: alternative 0 with probability `keep_num/keep_den`, otherwise uniform
    /// among the others. Recorded exactly like `choose`, so replay is unaffected by the bias.
    pub fn choose_biased(&mut self, site: &str, bound: u64, keep_num: u64, keep_den: u64) -> u64 {
        assert!(bound > 0);
        if bound == 1 {
            return self.choose(site, 1);
        }
        match &mut self.mode {
            Mode::Gen(r) => {
                let v = if r.below(keep_den) < keep_num {
                    0
                } else {
                    1 + r.below(bound - 1)
                };
                self.trace.push(Decision {
                    s: site.to_string(),
                    b: bound,
                    v,
                });
                v
            }
            Mode::Replay { .. } => self.choose(site, bound),
        }
    }

    pub fn values(&self) -> Vec<u64> {
        self.trace.iter().map(|d| d.v).collect()
    }

    /// A signature of the decisions actually taken (used to count distinct schedules).
    pub fn signature(&self) -> u64 {
        let mut h = crate::Fnv::new();
        for d in &self.trace {
            h.u64(d.b).u64(d.v);
        }
        h.finish()
    }
}
