//! Delta-debugging helpers. `test(candidate)` must return true iff the candidate still shows
//! the *same violation class at the same oracle*; the helpers only ever keep such candidates.

pub struct Budget {
    pub attempts_left: u64,
}

impl Budget {
    pub fn new(n: u64) -> Self {
        Budget { attempts_left: n }
    }
    fn take(&mut self) -> bool {
        if self.attempts_left == 0 {
            false
        } else {
            self.attempts_left -= 1;
            true
        }
    }
}

/// ddmin over a list: remove chunks, halving the chunk size, until 1-minimal or out of budget.
pub fn ddmin<T: Clone>(
    items: &[T],
    budget: &mut Budget,
    mut test: impl FnMut(&[T]) -> bool,
) -> Vec<T> {
    let mut cur: Vec<T> = items.to_vec();
    let mut chunk = cur.len().div_ceil(2).max(1);
    while !cur.is_empty() {
        let mut i = 0;
        let mut removed_any = false;
        while i < cur.len() {
            let end = (i + chunk).min(cur.len());
            let mut cand = Vec::with_capacity(cur.len() - (end - i));
            cand.extend_from_slice(&cur[..i]);
            cand.extend_from_slice(&cur[end..]);
            if !budget.take() {
                return cur;
            }
            if test(&cand) {
                cur = cand;
                removed_any = true;
            } else {
                i = end;
            }
        }
        if chunk == 1 {
            if !removed_any {
                break;
            }
        } else {
            chunk = chunk.div_ceil(2);
        }
    }
    cur
}

/// Shrink a decision vector: shortest failing prefix (missing tail = zeros), then zero blocks,
/// then lower single values.
pub fn shrink_decisions(
    vals: &[u64],
    budget: &mut Budget,
    mut test: impl FnMut(&[u64]) -> bool,
) -> Vec<u64> {
    let mut cur = vals.to_vec();
    // 1. prefix by bisection (not monotone in general; bisection is a heuristic, result checked)
    let (mut lo, mut hi) = (0usize, cur.len());
    while lo < hi {
        let mid = (lo + hi) / 2;
        if !budget.take() {
            return cur;
        }
        if test(&cur[..mid]) {
            hi = mid;
        } else {
            lo = mid + 1;
        }
    }
    if hi < cur.len() && budget.take() && test(&cur[..hi]) {
        cur.truncate(hi);
    }
    // 2. zero blocks
    let mut chunk = cur.len().div_ceil(2).max(1);
    loop {
        let mut i = 0;
        while i < cur.len() {
            let end = (i + chunk).min(cur.len());
            if cur[i..end].iter().any(|v| *v != 0) {
                let mut cand = cur.clone();
                for v in &mut cand[i..end] {
                    *v = 0;
                }
                if !budget.take() {
                    return cur;
                }
                if test(&cand) {
                    cur = cand;
                }
            }
            i = end;
        }
        if chunk == 1 {
            break;
        }
        chunk = chunk.div_ceil(2);
    }
    // 3. lower single values
    for i in 0..cur.len() {
        while cur[i] > 0 {
            let mut cand = cur.clone();
            cand[i] -= 1;
            if !budget.take() {
                return cur;
            }
            if test(&cand) {
                cur = cand;
            } else {
                break;
            }
        }
    }
    // 4. drop trailing zeros (they are the default anyway)
    while cur.last() == Some(&0) {
        cur.pop();
    }
    cur
}
