//! simcore — the parts every simulation engine shares:
//!
//! * `rng`      one seeded PRNG (SplitMix64 seeding xoshiro256**), no other entropy anywhere
//! * `decide`   the decision source: generate (draw + record) or replay (read back)
//! * `sched`    baton-passing scheduler for real OS threads: exactly one simulated thread
//!              runs at a time and *who runs next* is a recorded decision
//! * `shrink`   generic delta-debugging helpers (ddmin over lists, decision-vector shrink)
//! * `report`   evidence / replay file writers, known-findings file reader
//!
//! Nothing in here reads a clock or any other source of entropy on a path that influences a
//! run; wall-clock is read only to report throughput and to honour a batch budget *between*
//! runs.

pub mod batch;
pub mod cli;
pub mod decide;
pub mod report;
pub mod rng;
pub mod sched;
pub mod shrink;

pub use decide::Decisions;
pub use rng::{mix, Rng};

/// FNV-1a, used for signatures of event logs and plans (stable across runs and platforms —
/// `std::collections::hash_map::DefaultHasher` is not guaranteed to be).
#[derive(Clone, Copy)]
pub struct Fnv(pub u64);

impl Default for Fnv {
    fn default() -> Self {
        Fnv(0xcbf29ce484222325)
    }
}

impl Fnv {
    pub fn new() -> Self {
        Self::default()
    }
    pub fn bytes(&mut self, b: &[u8]) -> &mut Self {
        for x in b {
            self.0 ^= *x as u64;
            self.0 = self.0.wrapping_mul(0x100000001b3);
        }
        self
    }
    pub fn u64(&mut self, v: u64) -> &mut Self {
        self.bytes(&v.to_le_bytes())
    }
    pub fn str(&mut self, s: &str) -> &mut Self {
        self.bytes(s.as_bytes());
        self.bytes(&[0xff])
    }
    pub fn finish(&self) -> u64 {
        self.0
    }
}

pub fn fnv_str(s: &str) -> u64 {
    let mut h = Fnv::new();
    h.str(s);
    h.finish()
}

/// Panic bookkeeping shared by all engines: a process-wide hook that prints nothing and stores
/// `message @ file:line` in a thread local, so a `catch_unwind` site can report where the code
/// under test panicked without the default hook's stderr noise (hundreds of thousands of runs).
pub mod panics {
    use std::cell::RefCell;
    thread_local! {
        static LAST: RefCell<Option<String>> = const { RefCell::new(None) };
    }
    pub fn install_quiet_hook() {
        std::panic::set_hook(Box::new(|info| {
            let msg = if let Some(s) = info.payload().downcast_ref::<&str>() {
                s.to_string()
            } else if let Some(s) = info.payload().downcast_ref::<String>() {
                s.clone()
            } else {
                "<non-string panic payload>".to_string()
            };
            let loc = info
                .location()
                .map(|l| format!("{}:{}", l.file(), l.line()))
                .unwrap_or_default();
            LAST.with(|l| *l.borrow_mut() = Some(format!("{msg} @ {loc}")));
        }));
    }
    pub fn take_last() -> Option<String> {
        LAST.with(|l| l.borrow_mut().take())
    }
    pub fn payload_to_string(p: &(dyn std::any::Any + Send)) -> String {
        if let Some(s) = p.downcast_ref::<&str>() {
            s.to_string()
        } else if let Some(s) = p.downcast_ref::<String>() {
            s.clone()
        } else {
            "<non-string panic payload>".to_string()
        }
    }
}
