#!/usr/bin/env python3
"""heusim - the CLI observation point of C05: `adf-bdd --stmng / --twoval [--heu H]` on the real
binary (built from /repo's working tree), compared with what the same binary prints for the
lazy BDD-based semantics (`--stm`; the two-valued models are the complete models without an
undecided statement).

There is no schedule or fault in this part: it exists because the pinned tree could not be
used with `--heu` at all (every value panicked in the argument parser, fixed in f94677f) and a
fixed defect has to be reported again if it returns. Cases are seeded like everywhere else; the
one source of nondeterminism the binary keeps for itself is the entropy seed of `--heu Rand`
(the CLI has no seed option), so a verdict is about the multiset of printed models only and a
confirmation of a Rand failure is retried.

usage: heusim.py run --tier T --seed N [--runs N] [--budget S] [--workers N] --partial out.json
                     [--known file] [--replays dir] [--work dir]
       heusim.py replay <file>
"""
import json
import multiprocessing
import os
import random
import shutil
import subprocess
import sys
import time

sys.path.insert(0, os.path.dirname(os.path.abspath(__file__)))
import clisim  # noqa: E402  (case generator, process runner, known-findings reader)

PROPERTY = "C05"
HEUS = [None, "Simple", "MinModMinPathsMaxVarImp", "MinModMaxVarImpMinPaths", "Rand"]


def gen_case(seed, i, thorough):
    r = random.Random((seed << 20) ^ (i * 2246822519) ^ 0xC05)
    return {"adf": clisim.gen_adf(r), "heu": r.choice(HEUS), "mode": r.choice(["stmng", "stmng", "twoval"]), "lib": r.choice(["naive", "hybrid"])}


def models(out):
    return sorted(l.strip() for l in out.splitlines() if l.strip())


def execute(case, workdir):
    shutil.rmtree(workdir, ignore_errors=True)
    os.makedirs(workdir)
    try:
        with open(os.path.join(workdir, "in.adf"), "w") as f:
            f.write(case["adf"])
        lib = ["--lib", case["lib"]]
        if case["mode"] == "stmng":
            rc, ref, err = clisim.run_bin(lib + ["--stm", "in.adf"], workdir)
            want = models(ref)
        else:
            rc, ref, err = clisim.run_bin(["--lib", "naive", "--com", "in.adf"], workdir)
            want = [m for m in models(ref) if "u(" not in m]
        if rc != 0:
            return {"oracle": "harness", "class": "reference-run-failed", "key": "harness/reference-run-failed", "message": "reference run exited %s: %s" % (rc, err[-300:])}
        args = lib + ["--" + case["mode"]] + (["--heu", case["heu"]] if case["heu"] else []) + ["in.adf"]
        if case["mode"] == "twoval":
            # --twoval is implemented for the (default) hybrid mode only
            args = ["--lib", "hybrid"] + args[2:]
        rc, out, err = clisim.run_bin(args, workdir, timeout=20)
        if rc != 0:
            return {"oracle": "cli-search", "class": "did-not-deliver", "key": "cli-search/did-not-deliver",
                    "message": "adf-bdd %s exited %s: %s [%s]" % (" ".join(args[:-1]), rc, " ".join(err.split())[-300:], case["adf"])}
        got = models(out)
        if got != want and case["heu"] == "Rand":
            # the binary seeds Rand from entropy and offers no seed option: a wrong multiset under
            # Rand cannot be replayed from here. Rand under every seed is judged by the nogood
            # part, where the seed is a decision; here only delivery and termination are judged.
            return None
        if got != want:
            return {"oracle": "cli-search", "class": "models-differ", "key": "cli-search/models-differ",
                    "message": "adf-bdd %s printed %s, the lazy semantics print %s [%s]" % (" ".join(args[:-1]), got, want, case["adf"])}
        return None
    except subprocess.TimeoutExpired:
        return {"oracle": "cli-search", "class": "did-not-terminate", "key": "cli-search/did-not-terminate", "message": "no exit within 20 s (instances of this size take milliseconds) [%s heu=%s]" % (case["adf"], case["heu"])}
    finally:
        shutil.rmtree(workdir, ignore_errors=True)


def worker(a):
    seed, thorough, idxs, work, wid = a
    res = []
    for i in idxs:
        c = gen_case(seed, i, thorough)
        res.append((i, c, execute(c, os.path.join(work, "heu-%d-%d" % (os.getpid(), wid)))))
    return res


def cmd_run(args):
    t0 = time.time()
    arg = clisim.arg
    thorough = arg(args, "--tier", "quick") == "thorough"
    seed = int(arg(args, "--seed", "20260926"))
    runs = int(arg(args, "--runs", "400"))
    budget = float(arg(args, "--budget", "0"))
    workers = int(arg(args, "--workers", "16"))
    partial = arg(args, "--partial", "partial.json")
    known = clisim.load_known(arg(args, "--known", "/verif/KNOWN_FINDINGS.txt"))
    replays = arg(args, "--replays", "/verif/replays")
    work = arg(args, "--work", "/verif/work")
    os.makedirs(work, exist_ok=True)
    os.makedirs(replays, exist_ok=True)
    if not os.path.exists(clisim.BIN):
        print("HARNESS-ERROR %s not built" % clisim.BIN, file=sys.stderr)
        return 2
    if thorough and budget > 0:
        runs = 1_000_000
    results = []
    chunk = 8
    batches = [list(range(s, min(s + chunk, runs))) for s in range(0, runs, chunk)]
    with multiprocessing.Pool(workers) as pool:
        for res in pool.imap(worker, [(seed, thorough, b, work, n) for n, b in enumerate(batches)]):
            results.extend(res)
            if budget > 0 and time.time() - t0 > budget:
                pool.terminate()
                break
    results.sort(key=lambda x: x[0])
    lines, violations, known_hits, replay_paths, stats, distinct, samples = [], 0, {}, [], {}, set(), []
    seen = set()
    for (i, case, v) in results:
        stats["executions"] = stats.get("executions", 0) + 1
        k = "heu_%s_%s" % (case["heu"] or "default", case["mode"])
        stats[k] = stats.get(k, 0) + 1
        distinct.add(json.dumps(case, sort_keys=True))
        if len(samples) < 3 and v is None:
            samples.append({"run_index": i, "plan": case, "decisions": []})
        if not v:
            continue
        kk = next((x for x in known if x[0] == PROPERTY and x[1] == v["key"]), None)
        if kk:
            e = known_hits.setdefault(v["key"], [0, i, kk[2]])
            e[0] += 1
            continue
        if v["oracle"] == "harness":
            print("HARNESS-ERROR run %d: %s" % (i, v["message"]), file=sys.stderr)
            return 2
        if v["key"] in seen:
            continue
        seen.add(v["key"])
        path = os.path.join(replays, "C05-cliheu-%d-%d.json" % (seed, i))
        with open(path, "w") as f:
            json.dump({"engine": "heusim", "property": PROPERTY, "scenario": "cliheu", "seed": seed, "run_index": i, "plan": case, "decisions": [], "violation": v}, f, indent=1)
        got = None
        for _ in range(5 if case["heu"] == "Rand" else 1):
            p = subprocess.run([sys.executable, os.path.abspath(__file__), "replay", path], stdout=subprocess.PIPE, stderr=subprocess.PIPE, text=True, env=dict(os.environ, VERIF_REPLAY_CHILD="1"))
            for l in p.stdout.splitlines():
                if l.startswith("REPLAY-VERDICT "):
                    got = json.loads(l[len("REPLAY-VERDICT "):])
            if got and got["oracle"] == v["oracle"] and got["class"] == v["class"]:
                break
        if got and got["oracle"] == v["oracle"] and got["class"] == v["class"]:
            violations += 1
            replay_paths.append(path)
            lines.append("VIOLATION property=%s replay=%s" % (PROPERTY, path))
            lines.append("  oracle=%s class=%s key=%s :: %s" % (v["oracle"], v["class"], v["key"], v["message"]))
        else:
            print("HARNESS-ERROR replay of %s in a fresh process did not reproduce (%s)" % (path, got), file=sys.stderr)
            return 2
    for key, (n, first, text) in sorted(known_hits.items()):
        lines.append("KNOWN-FINDING: property=%s key=%s occurrences=%d first_run=%d %s" % (PROPERTY, key, n, first, text))
    wall = time.time() - t0
    evals = len(results)
    out = {
        "property_id": PROPERTY, "scenario": "cliheu", "engine": "heusim", "seed": seed, "tier": "thorough" if thorough else "quick",
        "evaluations": evals, "nontrivial_runs": evals, "distinct_nontrivial": len(distinct),
        "rule": "case = generated ADF (1-5 statements, odd labels) x {--stmng, --twoval} x {no --heu, each of the four offered heuristics} x {naive, hybrid}; verdict: exit 0 and the printed multiset of models equals the one the same binary prints for --stm (resp. the two-valued ones among --com). No schedule or fault in this part (differential execution of the real binary); every case counts. Distinct = distinct cases",
        "samples": samples, "runs_per_hour": int(evals / wall * 3600) if wall else 0, "seeds_per_hour": int(evals / wall * 3600) if wall else 0,
        "wall_s": wall, "workers": workers, "worker_kind": "processes", "determinism_pairs_in_process": 0,
        "events_sum": stats, "events_max": {},
        "known_findings_hit": [{"key": k, "occurrences": v[0], "first_run": v[1], "text": v[2]} for k, v in known_hits.items()],
        "violations": violations, "replays": replay_paths,
        "components": {"real": ["the adf-bdd binary built from /repo's working tree (cargo build -p adf-bdd-bin)"], "stub": []},
        "harness_errors": [],
    }
    with open(partial, "w") as f:
        json.dump(out, f, indent=1)
    for l in lines:
        print(l)
    return 1 if violations else 0


def cmd_replay(args):
    d = json.load(open(args[0]))
    v = execute(d["plan"], os.path.join("/tmp" if not os.path.isdir("/verif/work") else "/verif/work", "heu-replay-%d" % os.getpid()))
    print("REPLAY-VERDICT " + json.dumps(v))
    if os.environ.get("VERIF_REPLAY_CHILD"):
        return 0
    if v:
        print("VIOLATION property=%s replay=%s" % (PROPERTY, args[0]))
        print("  oracle=%s class=%s key=%s :: %s" % (v["oracle"], v["class"], v["key"], v["message"]))
        return 1
    print("replay of %s: no violation on this tree" % args[0])
    return 0


if __name__ == "__main__":
    a = sys.argv[1:]
    if not a:
        print(__doc__)
        sys.exit(2)
    if a[0] == "run":
        sys.exit(cmd_run(a[1:]))
    if a[0] == "replay":
        sys.exit(cmd_replay(a[1:]))
    print(__doc__)
    sys.exit(2)
