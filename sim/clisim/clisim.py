#!/usr/bin/env python3
"""clisim - the CLI part of C14: the real `adf-bdd` binary (built from /repo's working tree) in a
private directory, with syscall faults injected by strace at exact, replayable positions.

The process is single-threaded, so "the k-th write to the export file fails with ENOSPC" or
"the process is killed at its k-th write" is a deterministic crash/fault point.

Verdicts
  V1 round-trip      fault-free: `--export F` then `--import F` prints exactly what the direct
                     run prints
  V2 no-overwrite    an existing F (regular file, directory, symlink to a file) is byte-identical
                     afterwards, whatever faults are injected (incl. a failing statx/openat)
  V3 ack=>durable    whenever an export run exits 0 on an absent F, F imports to the same answers
                     (an export that swallowed a write error would acknowledge a torn file)
  V4 import fault    a read of the export that fails (EIO/EAGAIN; EINTR is retried by std) makes the
                     import fail or print the same answers, never other answers

usage: clisim.py run --tier T --seed N [--runs N] [--budget S] [--workers N] --partial out.json
                     [--known file] [--replays dir] [--work dir]
       clisim.py replay <file>
"""
import json
import multiprocessing
import os
import random
import shutil
import subprocess
import sys
import time

BIN = os.environ.get("CLISIM_BIN", "/verif/target/repo/debug/adf-bdd")
PROPERTY = "C14"


# ---------------------------------------------------------------------------------------------
# case generation (seeded)
# ---------------------------------------------------------------------------------------------
def gen_formula(r, names, depth):
    if depth == 0 or r.random() < 0.25:
        x = r.random()
        if x < 0.1:
            return "c(v)"
        if x < 0.2:
            return "c(f)"
        return r.choice(names)
    if r.random() < 0.2:
        return "neg(%s)" % gen_formula(r, names, depth - 1)
    op = r.choice(["and", "or", "imp", "iff", "xor"])
    return "%s(%s,%s)" % (op, gen_formula(r, names, depth - 1), gen_formula(r, names, depth - 1))


NAME_POOL = ["10", "2", "1", "9", "a", "B", "b", "x10", "x2", "x1", "and", "c", "neg", "s0", "s1",
             '"ü"', '"a b"', '"𝛼"', '"x𝛼😀y"', '"日本"']


def gen_adf(r):
    n = r.randint(1, 5)
    if r.random() < 0.5:
        # labels whose declaration, lexicographic and alphanumeric orders all differ
        names = r.sample(NAME_POOL, n)
    else:
        names = ["s%d" % i for i in range(n)]
    depth = r.randint(1, 3)
    return "".join("s(%s)." % x for x in names) + "".join("ac(%s,%s)." % (x, gen_formula(r, names, depth)) for x in names)


WRITE_KINDS = ["error=ENOSPC", "error=EIO", "signal=KILL", "error=EINTR"]
META_FAULTS = [("statx", "error=EIO"), ("statx", "error=ENOMEM"), ("statx", "error=EACCES"), ("statx", "error=ENOENT"),
               ("openat", "error=EIO"), ("openat", "error=ENOMEM"), ("openat", "error=EMFILE"), ("openat", "error=EINTR"), ("openat", "error=ENOSPC")]
TARGETS_EXISTING = ["file", "dir", "symlink-file"]


_ADVERTISED = None


def advertised_env():
    """Environment variables the binary itself says it reads (clap prints `[env: NAME=]` in
    --help), apart from RUST_LOG: the environment is an input the simulator owns."""
    global _ADVERTISED
    if _ADVERTISED is None:
        import re
        try:
            p = subprocess.run([BIN, "--help"], stdout=subprocess.PIPE, stderr=subprocess.DEVNULL, timeout=60)
            names = re.findall(r"\[env: ([A-Za-z_][A-Za-z0-9_]*)=", p.stdout.decode("utf-8", "replace"))
        except Exception:
            names = []
        _ADVERTISED = sorted(set(n for n in names if n != "RUST_LOG"))
    return _ADVERTISED


def gen_case(seed, i, thorough):
    c = gen_case_core(seed, i, thorough)
    # drawn from its own stream (every other draw stays what it was): a hostile environment -
    # whatever variables the binary advertises, set to something a wrapper script might export
    names = advertised_env()
    if names:
        r = random.Random((seed << 22) ^ (i * 69069) ^ 0xE57)
        if r.random() < 0.6:
            c["env"] = {r.choice(names): r.choice(["true", "1", "yes", "false", ""])}
    # drawn from its own stream: the nogood search among the semantics flags (the naive arm
    # of the CLI offers it too), sometimes as the only flag of the importing run
    r3 = random.Random((seed << 23) ^ (i * 48271) ^ 0x57A6)
    x3 = r3.random()
    if x3 < 0.2:
        c["flags"] = c["flags"] + ["--stmng"]
    elif x3 < 0.3:
        c["flags"] = ["--stmng"]
    if PROPERTY == "C06":
        # the C06 part: fault-free runs only - export, semantics in the same run, re-import,
        # second generation; the printed answers are the observation point of canonicity
        c["fault"] = None
        c["target"] = "absent"
        c.pop("import_fault", None)
        c["chain"] = (i % 2 == 0)
    return c


def gen_case_core(seed, i, thorough):
    c = gen_case_inner(seed, i, thorough)
    r = random.Random((seed << 21) ^ (i * 40503) ^ 0x50F7)
    # the stored variable order is what counts: a sorting flag given together with --import
    # must not change what is printed
    if r.random() < 0.3:
        c["import_sort"] = [r.choice(["--an", "--lx"])]
    # an existing target may also be empty (a reserved name, a marker file): still never written
    if c["target"] in ("file", "symlink-file") and r.random() < 0.3:
        c["target"] = {"file": "empty-file", "symlink-file": "symlink-empty"}[c["target"]]
    return c


def gen_case_inner(seed, i, thorough):
    r = random.Random((seed << 20) ^ (i * 2654435761) ^ 0xC14)
    adf = gen_adf(r)
    flags = [f for f in ["--grd", "--com", "--stm"] if r.random() < 0.7] or ["--grd"]
    x = r.random()
    if x > 0.93:
        # a file size limit (quota / ulimit -f) with SIGXFSZ ignored: the write that crosses the
        # limit is short, the next one fails with EFBIG
        return {"adf": adf, "flags": flags, "target": "absent", "fault": {"syscall": "rlimit_fsize", "kind": "bytes", "when": r.choice([1, 16, 64, 100, 200, 256, 300, 512, 1024])}}
    if x < 0.10:
        # fault while the exported file is read back (import side)
        return {"adf": adf, "flags": flags, "target": "absent", "fault": None,
                "import_fault": {"syscall": "read", "kind": r.choice(["error=EIO", "error=EINTR", "error=EAGAIN"]), "when": r.randint(1, 3)}}
    if x < 0.17:
        return {"adf": adf, "flags": flags, "target": "absent", "fault": None, "chain": True}
    if x < 0.25:
        return {"adf": adf, "flags": flags, "target": "absent", "fault": None}
    if x < 0.45:
        return {"adf": adf, "flags": flags, "target": r.choice(TARGETS_EXISTING), "fault": None}
    if x < 0.70:
        sc, kind = r.choice(META_FAULTS)
        return {"adf": adf, "flags": flags, "target": r.choice(TARGETS_EXISTING + ["absent"]), "fault": {"syscall": sc, "kind": kind, "when": 1}}
    kind = r.choice(WRITE_KINDS)
    when = r.randint(1, 160 if not thorough else 400)
    return {"adf": adf, "flags": flags, "target": "absent" if r.random() < 0.8 else r.choice(TARGETS_EXISTING), "fault": {"syscall": "write", "kind": kind, "when": when}}


# ---------------------------------------------------------------------------------------------
# one simulated CLI world
# ---------------------------------------------------------------------------------------------
def run_bin(args, cwd, strace=None, fsize=None, timeout=120, extra_env=None):
    cmd = [BIN] + args
    if strace:
        cmd = ["strace", "-f", "-qq", "-o", os.path.join(cwd, "strace.out")] + strace + cmd
    env = {"PATH": os.environ.get("PATH", "/usr/bin:/bin"), "RUST_LOG": "error"}
    env.update(extra_env or {})
    pre = None
    if fsize is not None:
        def pre():
            import resource
            import signal
            signal.signal(signal.SIGXFSZ, signal.SIG_IGN)
            resource.setrlimit(resource.RLIMIT_FSIZE, (fsize, fsize))
    p = subprocess.run(cmd, cwd=cwd, env=env, stdout=subprocess.PIPE, stderr=subprocess.PIPE, timeout=timeout, preexec_fn=pre)
    return p.returncode, p.stdout.decode("utf-8", "replace"), p.stderr.decode("utf-8", "replace")


def snapshot(path):
    """What an observer can see of the export path."""
    if os.path.islink(path):
        tgt = os.readlink(path)
        full = os.path.join(os.path.dirname(path), tgt)
        return ("symlink", tgt, open(full, "rb").read() if os.path.isfile(full) else None)
    if os.path.isdir(path):
        return ("dir", sorted(os.listdir(path)))
    if os.path.isfile(path):
        return ("file", open(path, "rb").read())
    return ("absent",)


def execute(case, workdir):
    """Returns (violation or None, info dict)."""
    info = {"injected": False, "export_exit": None, "acked": False, "torn_unacked": False}
    shutil.rmtree(workdir, ignore_errors=True)
    os.makedirs(workdir)
    try:
        with open(os.path.join(workdir, "in.adf"), "w") as f:
            f.write(case["adf"])
        rc, direct, err = run_bin(["--lib", "naive"] + case["flags"] + ["in.adf"], workdir)
        if rc != 0:
            return ({"oracle": "harness", "class": "direct-run-failed", "key": "harness/direct-run-failed", "message": "direct run exited %s: %s" % (rc, err[-300:])}, info)
        F = os.path.join(workdir, "F.json")
        t = case["target"]
        if t == "file":
            with open(F, "wb") as f:
                f.write(b'{"precious": "existing export, must never be modified"}\n')
        elif t == "dir":
            os.makedirs(F)
            with open(os.path.join(F, "keep"), "w") as f:
                f.write("x")
        elif t == "symlink-file":
            with open(os.path.join(workdir, "real.json"), "wb") as f:
                f.write(b'{"precious": "target of the symlink"}\n')
            os.symlink("real.json", F)
        elif t == "empty-file":
            open(F, "wb").close()
        elif t == "symlink-empty":
            open(os.path.join(workdir, "real.json"), "wb").close()
            os.symlink("real.json", F)
        before = snapshot(F)
        strace = None
        fsize = None
        fl = case["fault"]
        if fl and fl["syscall"] == "rlimit_fsize":
            fsize = fl["when"]
        elif fl:
            strace = ["-e", "trace=%s" % fl["syscall"], "-P", "F.json", "-P", F, "-e", "inject=%s:%s:when=%d" % (fl["syscall"], fl["kind"], fl["when"])]
        rc, out, err = run_bin(["--lib", "naive", "--export", "F.json"] + case["flags"] + ["in.adf"], workdir, strace, fsize, extra_env=case.get("env"))
        info["export_exit"] = rc
        if fsize is not None:
            try:
                full = len(json.dumps(None)) and os.path.getsize(F)
            except OSError:
                full = 0
            # the limit bit iff the file stopped exactly at it (stdout is a pipe, not limited)
            info["injected"] = full == fsize
        elif fl:
            try:
                tr = open(os.path.join(workdir, "strace.out")).read()
            except OSError:
                tr = ""
            info["injected"] = "(INJECTED)" in tr or "killed by SIGKILL" in tr or rc in (-9, 137)
        after = snapshot(F)
        # V2: an existing export target is never modified
        if before[0] != "absent" and after != before:
            return ({"oracle": "V2-no-overwrite", "class": "existing-%s-modified" % before[0],
                     "key": "V2/%s/%s" % (before[0], (fl or {}).get("syscall", "no-fault")),
                     "message": "export onto an existing %s (fault %s) exited %s and changed it: before %r, after %r" % (t, fl, rc, _clip(before), _clip(after))}, info)
        if before[0] == "absent":
            if rc == 0:
                info["acked"] = True
                if not fl and out != direct:
                    return ({"oracle": "V1-round-trip", "class": "export-run-output-differs", "key": "V1/export-run-output-differs", "message": "export run printed %r, direct run %r" % (out, direct)}, info)
                # V1 / V3: an acknowledged export imports to the same answers
                if after[0] != "file":
                    return ({"oracle": "V3-ack-durable", "class": "acknowledged-but-no-file", "key": "V3/acknowledged-but-no-file", "message": "export exited 0 (fault %s) but F is %s" % (fl, after[0])}, info)
                ifl = case.get("import_fault")
                istrace = None
                if ifl:
                    istrace = ["-e", "trace=read", "-P", "F.json", "-P", F, "-e", "inject=read:%s:when=%d" % (ifl["kind"], ifl["when"])]
                rc2, out2, err2 = run_bin(["--lib", "naive", "--import"] + case.get("import_sort", []) + case["flags"] + ["F.json"], workdir, istrace)
                if ifl:
                    try:
                        info["import_injected"] = "(INJECTED)" in open(os.path.join(workdir, "strace.out")).read()
                    except OSError:
                        info["import_injected"] = False
                    # V4: a failing read of the export may make the import fail, never print other answers
                    if rc2 == 0 and out2 != direct:
                        return ({"oracle": "V4-import-read-fault", "class": "wrong-answers", "key": "V4/wrong-answers",
                                 "message": "import with %s exited 0 and printed %r, direct run printed %r" % (ifl, out2, direct)}, info)
                    if rc2 != 0 and out2.strip():
                        return ({"oracle": "V4-import-read-fault", "class": "answers-before-failure", "key": "V4/answers-before-failure",
                                 "message": "import with %s exited %s after printing %r" % (ifl, rc2, out2)}, info)
                elif case.get("chain"):
                    # second generation: import F, export again to G in the same run, import G
                    rc3, out3, err3 = run_bin(["--lib", "naive", "--import", "--export", "G.json"] + case["flags"] + ["F.json"], workdir)
                    rc4, out4, err4 = run_bin(["--lib", "naive", "--import"] + case["flags"] + ["G.json"], workdir)
                    info["chained"] = True
                    if rc3 != 0 or out3 != direct or rc4 != 0 or out4 != direct:
                        return ({"oracle": "V1-round-trip", "class": "second-generation-differs", "key": "V1/second-generation",
                                 "message": "import+re-export exited %s printing %r; import of the re-export exited %s printing %r; direct run printed %r; stderr %s %s" % (rc3, out3, rc4, out4, direct, err3[-150:], err4[-150:])}, info)
                elif rc2 != 0 or out2 != direct:
                    orc = "V3-ack-durable" if fl else "V1-round-trip"
                    return ({"oracle": orc, "class": "import-differs" if rc2 == 0 else "import-failed", "key": "%s/import" % orc[:2],
                             "message": "export exited 0 (fault %s); import exited %s and printed %r, direct run printed %r; stderr %s" % (fl, rc2, out2, direct, err2[-200:])}, info)
            else:
                if not fl:
                    return ({"oracle": "V1-round-trip", "class": "export-failed", "key": "V1/export-failed", "message": "fault-free export exited %s: %s" % (rc, err[-300:])}, info)
                info["torn_unacked"] = after[0] == "file"
        return (None, info)
    finally:
        shutil.rmtree(workdir, ignore_errors=True)


def _clip(x):
    s = repr(x)
    return s if len(s) < 160 else s[:160] + "..."


def simplify(case):
    out = []
    tiny = "s(a).ac(a,c(v))."
    if case["adf"] != tiny:
        out.append(dict(case, adf=tiny))
        out.append(dict(case, adf="s(a).s(b).ac(a,neg(b)).ac(b,neg(a))."))
    if case["flags"] != ["--grd"]:
        out.append(dict(case, flags=["--grd"]))
    f = case["fault"]
    if f and f["syscall"] == "write" and f["when"] > 1:
        for w in sorted({1, 2, f["when"] // 2, f["when"] - 1}):
            if 1 <= w < f["when"]:
                out.append(dict(case, fault=dict(f, when=w)))
    if case["target"] == "symlink-file":
        out.append(dict(case, target="file"))
    if case["target"] == "symlink-empty":
        out.append(dict(case, target="empty-file"))
    return out


def shrink(case, viol, workdir):
    t0 = time.time()
    attempts = 0
    progress = True
    while progress and time.time() - t0 < 60:
        progress = False
        for cand in simplify(case):
            attempts += 1
            v, _ = execute(cand, workdir)
            if v and v["oracle"] == viol["oracle"] and v["class"] == viol["class"]:
                case, viol, progress = cand, v, True
                break
    return case, viol, {"attempts": attempts, "seconds": round(time.time() - t0, 2)}


# ---------------------------------------------------------------------------------------------
# batch
# ---------------------------------------------------------------------------------------------
def worker(args):
    seed, thorough, indices, work, wid = args
    res = []
    for i in indices:
        case = gen_case(seed, i, thorough)
        v, info = execute(case, os.path.join(work, "cli-%d-%d" % (os.getpid(), wid)))
        res.append((i, case, v, info))
    return res


def enumeration_cases(seed, n_adfs):
    """Thorough tier: every write position of the export x every fault kind, for n_adfs ADFs."""
    cases = []
    r = random.Random(seed ^ 0xE17)
    tmp = "/verif/work/cli-enum-%d" % os.getpid()
    for a in range(n_adfs):
        adf = gen_adf(r)
        shutil.rmtree(tmp, ignore_errors=True)
        os.makedirs(tmp)
        with open(os.path.join(tmp, "in.adf"), "w") as f:
            f.write(adf)
        F = os.path.join(tmp, "F.json")
        run_bin(["--lib", "naive", "--export", "F.json", "in.adf"], tmp, ["-e", "trace=write", "-P", "F.json", "-P", F])
        try:
            k = sum(1 for l in open(os.path.join(tmp, "strace.out")) if " write(" in l)
        except OSError:
            k = 0
        shutil.rmtree(tmp, ignore_errors=True)
        for when in range(1, k + 2):
            for kind in ["error=ENOSPC", "error=EIO", "signal=KILL"]:
                cases.append({"adf": adf, "flags": ["--grd", "--com", "--stm"], "target": "absent", "fault": {"syscall": "write", "kind": kind, "when": when}})
    return cases


def load_known(path):
    known = []
    try:
        for line in open(path):
            line = line.strip()
            if line.startswith("open:"):
                toks = line[5:].split()
                prop = next((t[9:] for t in toks if t.startswith("property=")), "")
                key = next((t[4:] for t in toks if t.startswith("key=")), "")
                known.append((prop, key, " ".join(t for t in toks if not t.startswith("property=") and not t.startswith("key="))))
    except OSError:
        pass
    return known


def arg(args, name, default=None):
    return args[args.index(name) + 1] if name in args else default


def cmd_run(args):
    global PROPERTY
    PROPERTY = arg(args, "--property", "C14")
    t0 = time.time()
    thorough = arg(args, "--tier", "quick") == "thorough"
    seed = int(arg(args, "--seed", "20260926"))
    runs = int(arg(args, "--runs", "1500"))
    budget = float(arg(args, "--budget", "0"))
    workers = int(arg(args, "--workers", "16"))
    partial = arg(args, "--partial", "partial.json")
    known = load_known(arg(args, "--known", "/verif/KNOWN_FINDINGS.txt"))
    replays = arg(args, "--replays", "/verif/replays")
    work = arg(args, "--work", "/verif/work")
    os.makedirs(work, exist_ok=True)
    os.makedirs(replays, exist_ok=True)
    if not os.path.exists(BIN):
        print("HARNESS-ERROR %s not built" % BIN, file=sys.stderr)
        return 2
    if shutil.which("strace") is None:
        print("HARNESS-ERROR strace not available", file=sys.stderr)
        return 2
    results = []
    chunk = 16
    batches = [list(range(s, min(s + chunk, runs))) for s in range(0, runs, chunk)]
    enumerated = []
    with multiprocessing.Pool(workers) as pool:
        jobs = [(seed, thorough, b, work, n) for n, b in enumerate(batches)]
        for res in pool.imap_unordered(worker, jobs):
            results.extend(res)
            if budget > 0 and time.time() - t0 > budget * 0.5 and thorough:
                pool.terminate()
                break
        if thorough:
            enum = enumeration_cases(seed, 24)
            jobs = [enum[i:i + 32] for i in range(0, len(enum), 32)]
            for res in pool.imap_unordered(enum_worker, [(j, work, n) for n, j in enumerate(jobs)]):
                enumerated.extend(res)
                if budget > 0 and time.time() - t0 > budget:
                    pool.terminate()
                    break
    all_res = results + [(10_000_000 + n, c, v, i) for n, (c, v, i) in enumerate(enumerated)]
    all_res.sort(key=lambda x: x[0])
    lines, violations, known_hits, replay_paths = [], 0, {}, []
    seen_kinds = set()
    stats = {}

    def inc(k, n=1):
        stats[k] = stats.get(k, 0) + n

    distinct = set()
    samples = []
    nontrivial = 0
    for (i, case, v, info) in all_res:
        inc("executions")
        inc("target_" + case["target"])
        fl = case["fault"]
        if fl:
            name = "fault_%s_%s" % (fl["syscall"], fl["kind"].replace("=", "_"))
            inc(name + "_configured")
            if info["injected"]:
                inc(name + "_fired")
        if case.get("import_fault"):
            nm = "fault_import_read_%s" % case["import_fault"]["kind"].replace("=", "_")
            inc(nm + "_configured")
            if info.get("import_injected"):
                inc(nm + "_fired")
        if info.get("chained"):
            inc("second_generation_round_trips")
        if info.get("acked"):
            inc("exports_acknowledged")
        if info.get("torn_unacked"):
            inc("torn_exports_not_acknowledged")
        nt = (fl is not None and info["injected"]) or case["target"] != "absent" or info.get("import_injected", False)
        if nt:
            nontrivial += 1
            distinct.add(json.dumps(case, sort_keys=True))
            if len(samples) < 3 and v is None:
                samples.append({"run_index": i, "plan": case, "decisions": []})
        if v:
            k = next((kk for kk in known if kk[0] == PROPERTY and kk[1] == v["key"]), None)
            if k:
                e = known_hits.setdefault(v["key"], [0, i, k[2]])
                e[0] += 1
                continue
            kind = (v["oracle"], v["class"], v["key"])
            if kind in seen_kinds or len(seen_kinds) >= 4:
                continue
            seen_kinds.add(kind)
            case2, v2, sh = shrink(case, v, os.path.join(work, "cli-shrink-%d" % os.getpid()))
            path = os.path.join(replays, "%s-cli-%d-%d.json" % (PROPERTY, seed, i))
            with open(path, "w") as f:
                json.dump({"engine": "clisim", "property": PROPERTY, "scenario": "cli", "seed": seed, "run_index": i, "plan": case2, "decisions": [], "violation": v2, "shrink": sh}, f, indent=1)
            # confirm in a fresh process
            p = subprocess.run([sys.executable, os.path.abspath(__file__), "replay", path], stdout=subprocess.PIPE, stderr=subprocess.PIPE, text=True, env=dict(os.environ, VERIF_REPLAY_CHILD="1"))
            got = None
            for l in p.stdout.splitlines():
                if l.startswith("REPLAY-VERDICT "):
                    got = json.loads(l[len("REPLAY-VERDICT "):])
            if got and got["oracle"] == v2["oracle"] and got["class"] == v2["class"]:
                violations += 1
                replay_paths.append(path)
                lines.append("VIOLATION property=%s replay=%s" % (PROPERTY, path))
                lines.append("  oracle=%s class=%s key=%s :: %s" % (v2["oracle"], v2["class"], v2["key"], v2["message"]))
            else:
                print("HARNESS-ERROR replay of %s in a fresh process did not reproduce (%s)" % (path, got), file=sys.stderr)
                return 2
    for key, (n, first, text) in sorted(known_hits.items()):
        lines.append("KNOWN-FINDING: property=%s key=%s occurrences=%d first_run=%d %s" % (PROPERTY, key, n, first, text))
    wall = time.time() - t0
    evals = len(all_res)
    out = {
        "property_id": PROPERTY, "scenario": "cli", "engine": "clisim", "seed": seed,
        "tier": "thorough" if thorough else "quick",
        "evaluations": evals, "nontrivial_runs": nontrivial, "distinct_nontrivial": len(distinct),
        "rule": "case = generated ADF (1-5 statements) x semantics flags x state of the export path (absent / regular file / directory / symlink to a file) x one syscall fault (k-th write to the export file fails with ENOSPC/EIO/EINTR or the process is killed at it; the statx behind Path::exists fails with EIO/ENOMEM/EACCES/ENOENT); thorough tier additionally enumerates every write position x {ENOSPC, EIO, KILL} for 24 ADFs. Non-trivial: the fault actually fired (strace reports INJECTED / the kill) or the export path pre-existed. Distinct = distinct cases",
        "samples": samples, "runs_per_hour": int(evals / wall * 3600) if wall else 0, "seeds_per_hour": int(evals / wall * 3600) if wall else 0,
        "wall_s": wall, "workers": workers, "worker_kind": "processes", "determinism_pairs_in_process": 0,
        "events_sum": stats, "events_max": {"enumerated_fault_positions": len(enumerated)},
        "known_findings_hit": [{"key": k, "occurrences": v[0], "first_run": v[1], "text": v[2]} for k, v in known_hits.items()],
        "violations": violations, "replays": replay_paths,
        "components": {"real": ["the adf-bdd binary built from /repo's working tree (cargo build -p adf-bdd-bin), the kernel's file system in a private directory"], "stub": ["syscall results at the injected position (strace -e inject, path-filtered to the export file)"]},
        "harness_errors": [],
    }
    with open(partial, "w") as f:
        json.dump(out, f, indent=1)
    for l in lines:
        print(l)
    return 1 if violations else 0


def enum_worker(args):
    cases, work, wid = args
    res = []
    for c in cases:
        v, info = execute(c, os.path.join(work, "cli-%d-e%d" % (os.getpid(), wid)))
        res.append((c, v, info))
    return res


def cmd_replay(args):
    rf = json.load(open(args[0]))
    v, info = execute(rf["plan"], "/verif/work/cli-replay-%d" % os.getpid())
    print("REPLAY-VERDICT " + json.dumps(v))
    child = "VERIF_REPLAY_CHILD" in os.environ
    if v:
        if not child:
            print("VIOLATION property=%s replay=%s" % (rf["property"], args[0]))
            print("  oracle=%s class=%s key=%s :: %s" % (v["oracle"], v["class"], v["key"], v["message"]))
        return 1
    if not child:
        print("replay of %s: no violation on this tree" % args[0])
    return 0


if __name__ == "__main__":
    a = sys.argv[1:]
    if a and a[0] == "run":
        sys.exit(cmd_run(a[1:]))
    if a and a[0] == "replay" and len(a) > 1:
        sys.exit(cmd_replay(a[1:]))
    print(__doc__)
    sys.exit(2)
