//! In-memory, *gated* stand-in for the `mongodb` driver — the API subset adf-bdd-server uses.
//!
//! * every operation first awaits a **gate**: it registers itself (operation, collection,
//!   filter, the tag of the request being polled) in a thread-local registry and resumes only
//!   when the simulator releases it, with an outcome: `Ok`, `FaultBefore` (error, nothing
//!   executed) or `FaultAfter` (executed, but the acknowledgement is lost: the caller sees an
//!   error). That is how the simulator interleaves several users' handlers between *any* two
//!   database calls of one handler and injects database failures;
//! * documents really go through `bson::to_document` / `from_document` (the real bson crate);
//! * every stored document carries out-of-band **provenance** (which simulated actor created
//!   it) and every executed operation is appended to an event log the oracles read.
//!
//! Supported query language: top-level equality filters, `$set` updates (dotted paths),
//! whole-document replacement, unique (single-field or compound) indexes. That is all the
//! server uses; anything else panics loudly (harness error), never silently misbehaves.

pub use bson;

use bson::{Bson, Document};
use serde::de::DeserializeOwned;
use serde::Serialize;
use std::borrow::Borrow;
use std::marker::PhantomData;
use std::sync::{Arc, Mutex};

pub mod error {
    #[derive(Debug, Clone)]
    pub struct Error {
        pub(crate) msg: String,
    }
    impl std::fmt::Display for Error {
        fn fmt(&self, f: &mut std::fmt::Formatter<'_>) -> std::fmt::Result {
            write!(f, "{}", self.msg)
        }
    }
    impl std::error::Error for Error {}
    pub type Result<T> = std::result::Result<T, Error>;
}

pub mod results {
    use bson::Bson;
    #[derive(Debug, Clone)]
    #[non_exhaustive]
    pub struct DeleteResult {
        pub deleted_count: u64,
    }
    #[derive(Debug, Clone)]
    #[non_exhaustive]
    pub struct UpdateResult {
        pub matched_count: u64,
        pub modified_count: u64,
        pub upserted_id: Option<Bson>,
    }
    #[derive(Debug, Clone)]
    #[non_exhaustive]
    pub struct InsertOneResult {
        pub inserted_id: Bson,
    }
    #[derive(Debug, Clone)]
    #[non_exhaustive]
    pub struct CreateIndexResult {
        pub index_name: String,
    }
}

pub mod options {
    macro_rules! empty_opts {
        ($($n:ident),*) => { $(#[derive(Debug, Clone, Default)] pub struct $n {})* };
    }
    empty_opts!(FindOneOptions, FindOptions, InsertOneOptions, DeleteOptions, CreateIndexOptions, ClientOptions);

    macro_rules! upsert_opts {
        ($n:ident, $b:ident) => {
            #[derive(Debug, Clone, Default)]
            pub struct $n {
                pub upsert: Option<bool>,
            }
            impl $n {
                pub fn builder() -> $b {
                    $b::default()
                }
            }
            #[derive(Debug, Clone, Default)]
            pub struct $b {
                upsert: Option<bool>,
            }
            impl $b {
                pub fn upsert(mut self, u: impl Into<Option<bool>>) -> Self {
                    self.upsert = u.into();
                    self
                }
                pub fn build(self) -> $n {
                    $n { upsert: self.upsert }
                }
            }
        };
    }
    upsert_opts!(UpdateOptions, UpdateOptionsBuilder);
    upsert_opts!(ReplaceOptions, ReplaceOptionsBuilder);

    #[derive(Debug, Clone, Default)]
    pub struct IndexOptions {
        pub unique: Option<bool>,
    }
    impl IndexOptions {
        pub fn builder() -> IndexOptionsBuilder {
            IndexOptionsBuilder::default()
        }
    }
    #[derive(Debug, Clone, Default)]
    pub struct IndexOptionsBuilder {
        unique: Option<bool>,
    }
    impl IndexOptionsBuilder {
        pub fn unique(mut self, u: impl Into<Option<bool>>) -> Self {
            self.unique = u.into();
            self
        }
        pub fn build(self) -> IndexOptions {
            IndexOptions { unique: self.unique }
        }
    }
}

#[derive(Debug, Clone, Default)]
pub struct IndexModel {
    pub keys: Document,
    pub options: Option<options::IndexOptions>,
}
impl IndexModel {
    pub fn builder() -> IndexModelBuilder {
        IndexModelBuilder::default()
    }
}
#[derive(Debug, Clone, Default)]
pub struct IndexModelBuilder {
    keys: Document,
    options: Option<options::IndexOptions>,
}
impl IndexModelBuilder {
    pub fn keys(mut self, d: Document) -> Self {
        self.keys = d;
        self
    }
    pub fn options(mut self, o: impl Into<Option<options::IndexOptions>>) -> Self {
        self.options = o.into();
        self
    }
    pub fn build(self) -> IndexModel {
        IndexModel { keys: self.keys, options: self.options }
    }
}

// ------------------------------------------------------------------------------------------
// the simulator's side
// ------------------------------------------------------------------------------------------
pub mod sim {
    use super::*;
    use std::cell::{Cell, RefCell};
    use std::task::Waker;

    #[derive(Debug, Clone, Copy, PartialEq, Eq)]
    pub enum Outcome {
        Ok,
        /// the call fails, nothing was executed
        FaultBefore,
        /// the call is executed, but its acknowledgement is lost: the caller sees an error
        FaultAfter,
        /// the call is executed, but its caller never learns anything: it stays suspended until
        /// the simulator drops it (the client disconnected while the call was on the wire)
        CancelAfter,
    }

    #[derive(Debug, Clone)]
    pub struct GateInfo {
        pub id: u64,
        /// tag of the request future that was being polled when the call was made
        /// (None = a background continuation)
        pub tag: Option<String>,
        pub op: &'static str,
        pub coll: String,
        pub filter: Document,
    }

    pub(crate) struct GateEntry {
        pub epoch: u64,
        pub info: GateInfo,
        pub released: Option<(Outcome, String)>,
        pub waker: Option<Waker>,
    }

    #[derive(Debug, Clone)]
    pub struct Touched {
        pub id: u64,
        pub prov: String,
        pub before: Option<Document>,
        pub after: Option<Document>,
    }

    #[derive(Debug, Clone)]
    pub struct OpEvent {
        pub gate: u64,
        /// the simulated actor the simulator attributed this call to when it released it
        pub actor: String,
        pub tag: Option<String>,
        pub op: &'static str,
        pub coll: String,
        pub filter: Document,
        /// "ok" | "fault-before" | "fault-after" | "duplicate-key"
        pub outcome: &'static str,
        /// documents written (insert/update/replace/delete)
        pub touched: Vec<Touched>,
        /// documents returned to the caller by a read: (id, provenance)
        pub read: Vec<(u64, String)>,
    }

    thread_local! {
        pub(crate) static GATES: RefCell<Vec<GateEntry>> = const { RefCell::new(Vec::new()) };
        pub(crate) static CUR_TAG: RefCell<Option<String>> = const { RefCell::new(None) };
        pub(crate) static AUTO: Cell<bool> = const { Cell::new(true) };
        pub(crate) static NEXT_GATE: Cell<u64> = const { Cell::new(1) };
        pub(crate) static EVENTS: RefCell<Vec<OpEvent>> = const { RefCell::new(Vec::new()) };
        pub(crate) static LIVE_EPOCH: Cell<u64> = const { Cell::new(0) };
        pub(crate) static DEAD_CALLS: Cell<u64> = const { Cell::new(0) };
    }

    /// Declare which server incarnation is alive; parked calls of other incarnations are failed.
    pub fn set_live_epoch(e: u64) {
        LIVE_EPOCH.with(|l| l.set(e));
        GATES.with(|g| {
            for ent in g.borrow_mut().iter_mut() {
                if ent.epoch != e && ent.released.is_none() {
                    ent.released = Some((Outcome::FaultBefore, "dead-incarnation".to_string()));
                    if let Some(w) = ent.waker.take() {
                        w.wake();
                    }
                }
            }
        });
    }

    /// database calls attempted by dead incarnations (failed without executing)
    pub fn dead_calls() -> u64 {
        DEAD_CALLS.with(|d| d.get())
    }

    /// Forget every gate and event, restart numbering (start of a simulated world).
    pub fn reset() {
        GATES.with(|g| g.borrow_mut().clear());
        EVENTS.with(|e| e.borrow_mut().clear());
        NEXT_GATE.with(|n| n.set(1));
        CUR_TAG.with(|t| *t.borrow_mut() = None);
        AUTO.with(|a| a.set(true));
        LIVE_EPOCH.with(|l| l.set(0));
        DEAD_CALLS.with(|d| d.set(0));
    }

    /// In auto mode calls pass their gate at once with `Ok` (used for set-up and for reads the
    /// harness itself makes).
    pub fn set_auto(on: bool) {
        AUTO.with(|a| a.set(on));
    }

    /// Set the tag attached to calls made from now on; returns the previous tag.
    pub fn set_tag(tag: Option<String>) -> Option<String> {
        CUR_TAG.with(|t| std::mem::replace(&mut *t.borrow_mut(), tag))
    }

    pub fn pending() -> Vec<GateInfo> {
        GATES.with(|g| {
            g.borrow()
                .iter()
                .filter(|e| e.released.is_none())
                .map(|e| e.info.clone())
                .collect()
        })
    }

    /// Let the call behind gate `id` proceed with `outcome`; `actor` is who the simulator
    /// attributes the call to (recorded as provenance of what it inserts).
    pub fn release(id: u64, outcome: Outcome, actor: &str) -> bool {
        GATES.with(|g| {
            let mut g = g.borrow_mut();
            match g.iter_mut().find(|e| e.info.id == id && e.released.is_none()) {
                Some(e) => {
                    e.released = Some((outcome, actor.to_string()));
                    if let Some(w) = e.waker.take() {
                        w.wake();
                    }
                    true
                }
                None => false,
            }
        })
    }

    pub fn take_events() -> Vec<OpEvent> {
        EVENTS.with(|e| std::mem::take(&mut *e.borrow_mut()))
    }

    /// Direct, ungated, unlogged view of a collection: (id, provenance, document).
    pub fn dump(client: &Client, coll: &str) -> Vec<(u64, String, Document)> {
        let st = client.store.lock().unwrap();
        st.colls
            .get(coll)
            .map(|c| c.docs.iter().map(|d| (d.id, d.prov.clone(), d.doc.clone())).collect())
            .unwrap_or_default()
    }
}

use sim::{GateEntry, GateInfo, OpEvent, Outcome, Touched};

struct GateFut {
    id: Option<u64>,
    info: Option<GateInfo>,
    done: bool,
    epoch: u64,
}

impl std::future::Future for GateFut {
    type Output = (u64, Outcome, String);
    fn poll(mut self: std::pin::Pin<&mut Self>, cx: &mut std::task::Context<'_>) -> std::task::Poll<Self::Output> {
        use std::task::Poll;
        if self.id.is_none() {
            let id = sim::NEXT_GATE.with(|n| {
                let v = n.get();
                n.set(v + 1);
                v
            });
            let mut info = self.info.take().unwrap();
            info.id = id;
            info.tag = sim::CUR_TAG.with(|t| t.borrow().clone());
            if self.epoch != sim::LIVE_EPOCH.with(|l| l.get()) {
                // the process this call belongs to is dead: nothing is executed
                self.done = true;
                sim::DEAD_CALLS.with(|d| d.set(d.get() + 1));
                return Poll::Ready((id, Outcome::FaultBefore, "dead-incarnation".to_string()));
            }
            if sim::AUTO.with(|a| a.get()) {
                self.done = true;
                let actor = info.tag.clone().unwrap_or_else(|| "setup".into());
                return Poll::Ready((id, Outcome::Ok, actor));
            }
            self.id = Some(id);
            sim::GATES.with(|g| {
                g.borrow_mut().push(GateEntry { epoch: self.epoch, info, released: None, waker: Some(cx.waker().clone()) })
            });
            return Poll::Pending;
        }
        let id = self.id.unwrap();
        let r = sim::GATES.with(|g| {
            let mut g = g.borrow_mut();
            let pos = g.iter().position(|e| e.info.id == id);
            match pos {
                Some(p) => {
                    if g[p].released.is_some() {
                        let e = g.remove(p);
                        Some(e.released.unwrap())
                    } else {
                        g[p].waker = Some(cx.waker().clone());
                        None
                    }
                }
                None => panic!("mongodb shim: gate {id} vanished"),
            }
        });
        match r {
            Some((o, actor)) => {
                self.done = true;
                Poll::Ready((id, o, actor))
            }
            None => Poll::Pending,
        }
    }
}

impl Drop for GateFut {
    fn drop(&mut self) {
        if let (Some(id), false) = (self.id, self.done) {
            // the caller was cancelled while parked at the gate
            let _ = sim::GATES.try_with(|g| g.borrow_mut().retain(|e| e.info.id != id));
        }
    }
}

/// The caller of a call released with `CancelAfter` is never resumed.
async fn hang<T>() -> T {
    std::future::pending::<T>().await
}

fn gate(epoch: u64, op: &'static str, coll: &str, filter: &Document) -> GateFut {
    GateFut {
        id: None,
        info: Some(GateInfo { id: 0, tag: None, op, coll: coll.to_string(), filter: filter.clone() }),
        done: false,
        epoch,
    }
}

// ------------------------------------------------------------------------------------------
// the store
// ------------------------------------------------------------------------------------------
struct StoredDoc {
    id: u64,
    prov: String,
    doc: Document,
}

#[derive(Default)]
struct Coll {
    docs: Vec<StoredDoc>,
    /// unique indexes, each over one or more fields (a compound index constrains the tuple)
    unique: Vec<Vec<String>>,
}

#[derive(Default)]
struct Store {
    colls: std::collections::BTreeMap<String, Coll>,
    next_doc: u64,
}

fn matches(doc: &Document, filter: &Document) -> bool {
    filter.iter().all(|(k, v)| {
        if k.starts_with('$') || matches!(v, Bson::Document(_)) {
            panic!("mongodb shim: unsupported filter {filter:?}");
        }
        doc.get(k) == Some(v)
    })
}

fn set_path(doc: &mut Document, path: &str, val: Bson) {
    match path.split_once('.') {
        None => {
            doc.insert(path, val);
        }
        Some((head, rest)) => {
            if !matches!(doc.get(head), Some(Bson::Document(_))) {
                doc.insert(head, Bson::Document(Document::new()));
            }
            if let Some(Bson::Document(inner)) = doc.get_mut(head) {
                set_path(inner, rest, val);
            }
        }
    }
}

fn apply_update(doc: &mut Document, update: &Document) {
    for (k, v) in update.iter() {
        match (k.as_str(), v) {
            ("$set", Bson::Document(sets)) => {
                for (p, val) in sets.iter() {
                    set_path(doc, p, val.clone());
                }
            }
            _ => panic!("mongodb shim: unsupported update {update:?}"),
        }
    }
}

fn fault() -> error::Error {
    error::Error { msg: "simulated database failure (connection reset)".into() }
}

fn violates_unique(coll: &Coll, candidate: &Document, except_id: Option<u64>) -> Option<String> {
    // a missing field indexes as null, like in MongoDB
    let field = |d: &Document, k: &str| d.get(k).cloned().unwrap_or(bson::Bson::Null);
    for keys in &coll.unique {
        let cand: Vec<bson::Bson> = keys.iter().map(|k| field(candidate, k)).collect();
        if coll.docs.iter().any(|d| Some(d.id) != except_id && keys.iter().map(|k| field(&d.doc, k)).collect::<Vec<_>>() == cand) {
            let name = keys.iter().map(|k| format!("{k}_1")).collect::<Vec<_>>().join("_");
            let dup = keys.iter().zip(cand.iter()).map(|(k, v)| format!("{k}: {v}")).collect::<Vec<_>>().join(", ");
            return Some(format!("E11000 duplicate key error collection index: {name} dup key: {{ {dup} }}"));
        }
    }
    None
}

#[derive(Clone)]
pub struct Client {
    store: Arc<Mutex<Store>>,
    /// which incarnation of the simulated server process this client object belongs to
    epoch: u64,
}

impl std::fmt::Debug for Client {
    fn fmt(&self, f: &mut std::fmt::Formatter<'_>) -> std::fmt::Result {
        f.write_str("Client(sim)")
    }
}

impl Client {
    /// A client on a fresh, empty in-memory store.
    pub fn sim_new() -> Client {
        Client { store: Arc::new(Mutex::new(Store::default())), epoch: 0 }
    }
    /// A client of the *next* server incarnation on the same (durable) store. Calls made
    /// through client objects of earlier incarnations fail at once and execute nothing: the
    /// process that would have made them is dead.
    pub fn sim_next_incarnation(&self) -> Client {
        Client { store: self.store.clone(), epoch: self.epoch + 1 }
    }
    pub fn sim_epoch(&self) -> u64 {
        self.epoch
    }
    pub async fn with_uri_str(_uri: impl AsRef<str>) -> error::Result<Client> {
        Ok(Client::sim_new())
    }
    pub fn database(&self, name: &str) -> Database {
        Database { client: self.clone(), _name: name.to_string() }
    }
}

#[derive(Clone, Debug)]
pub struct Database {
    client: Client,
    _name: String,
}

impl Database {
    pub fn collection<T>(&self, name: &str) -> Collection<T> {
        Collection { client: self.client.clone(), name: name.to_string(), _t: PhantomData }
    }
}

pub struct Collection<T> {
    client: Client,
    name: String,
    _t: PhantomData<fn() -> T>,
}

impl<T> Clone for Collection<T> {
    fn clone(&self) -> Self {
        Collection { client: self.client.clone(), name: self.name.clone(), _t: PhantomData }
    }
}

impl<T> std::fmt::Debug for Collection<T> {
    fn fmt(&self, f: &mut std::fmt::Formatter<'_>) -> std::fmt::Result {
        write!(f, "Collection({})", self.name)
    }
}

fn log_event(e: OpEvent) {
    sim::EVENTS.with(|ev| ev.borrow_mut().push(e));
}

impl<T> Collection<T> {
    fn event(&self, gate: u64, actor: &str, op: &'static str, filter: &Document, outcome: &'static str) -> OpEvent {
        OpEvent {
            gate,
            actor: actor.to_string(),
            tag: sim::CUR_TAG.with(|t| t.borrow().clone()),
            op,
            coll: self.name.clone(),
            filter: filter.clone(),
            outcome,
            touched: Vec::new(),
            read: Vec::new(),
        }
    }

    pub async fn create_index(
        &self,
        index: IndexModel,
        _options: impl Into<Option<options::CreateIndexOptions>>,
    ) -> error::Result<results::CreateIndexResult> {
        let (_g, o, _actor) = gate(self.client.epoch, "create_index", &self.name, &index.keys).await;
        if o != Outcome::Ok {
            return Err(fault());
        }
        let keys: Vec<String> = index.keys.keys().cloned().collect();
        if index.options.as_ref().and_then(|o| o.unique) == Some(true) && !keys.is_empty() {
            let mut st = self.client.store.lock().unwrap();
            let c = st.colls.entry(self.name.clone()).or_default();
            if !c.unique.contains(&keys) {
                c.unique.push(keys.clone());
            }
        }
        Ok(results::CreateIndexResult { index_name: keys.iter().map(|k| format!("{k}_1")).collect::<Vec<_>>().join("_") })
    }

    pub async fn delete_one(
        &self,
        query: Document,
        _options: impl Into<Option<options::DeleteOptions>>,
    ) -> error::Result<results::DeleteResult> {
        self.delete_impl("delete_one", query, true).await
    }

    pub async fn delete_many(
        &self,
        query: Document,
        _options: impl Into<Option<options::DeleteOptions>>,
    ) -> error::Result<results::DeleteResult> {
        self.delete_impl("delete_many", query, false).await
    }

    async fn delete_impl(&self, op: &'static str, query: Document, one: bool) -> error::Result<results::DeleteResult> {
        let (g, o, actor) = gate(self.client.epoch, op, &self.name, &query).await;
        if o == Outcome::FaultBefore {
            log_event(self.event(g, &actor, op, &query, "fault-before"));
            return Err(fault());
        }
        let mut ev = self.event(g, &actor, op, &query, if o == Outcome::Ok { "ok" } else { "fault-after" });
        let mut n = 0;
        {
            let mut st = self.client.store.lock().unwrap();
            let c = st.colls.entry(self.name.clone()).or_default();
            let mut i = 0;
            while i < c.docs.len() {
                if matches(&c.docs[i].doc, &query) && !(one && n > 0) {
                    let d = c.docs.remove(i);
                    ev.touched.push(Touched { id: d.id, prov: d.prov, before: Some(d.doc), after: None });
                    n += 1;
                } else {
                    i += 1;
                }
            }
        }
        log_event(ev);
        if o == Outcome::FaultAfter {
            return Err(fault());
        }
        if o == Outcome::CancelAfter {
            return hang().await;
        }
        Ok(results::DeleteResult { deleted_count: n })
    }

    pub async fn update_one(
        &self,
        query: Document,
        update: Document,
        options: impl Into<Option<options::UpdateOptions>>,
    ) -> error::Result<results::UpdateResult> {
        let upsert = options.into().and_then(|o| o.upsert).unwrap_or(false);
        self.update_impl("update_one", query, update, true, upsert).await
    }

    pub async fn update_many(
        &self,
        query: Document,
        update: Document,
        options: impl Into<Option<options::UpdateOptions>>,
    ) -> error::Result<results::UpdateResult> {
        let upsert = options.into().and_then(|o| o.upsert).unwrap_or(false);
        self.update_impl("update_many", query, update, false, upsert).await
    }

    async fn update_impl(&self, op: &'static str, query: Document, update: Document, one: bool, upsert: bool) -> error::Result<results::UpdateResult> {
        if upsert {
            panic!("mongodb shim: upsert on {op} is not supported");
        }
        let (g, o, actor) = gate(self.client.epoch, op, &self.name, &query).await;
        if o == Outcome::FaultBefore {
            log_event(self.event(g, &actor, op, &query, "fault-before"));
            return Err(fault());
        }
        let mut ev = self.event(g, &actor, op, &query, if o == Outcome::Ok { "ok" } else { "fault-after" });
        let (mut matched, mut modified) = (0, 0);
        {
            let mut st = self.client.store.lock().unwrap();
            let c = st.colls.entry(self.name.clone()).or_default();
            for d in c.docs.iter_mut() {
                if matches(&d.doc, &query) {
                    if one && matched > 0 {
                        break;
                    }
                    matched += 1;
                    let before = d.doc.clone();
                    apply_update(&mut d.doc, &update);
                    if d.doc != before {
                        modified += 1;
                    }
                    ev.touched.push(Touched { id: d.id, prov: d.prov.clone(), before: Some(before), after: Some(d.doc.clone()) });
                }
            }
        }
        log_event(ev);
        if o == Outcome::FaultAfter {
            return Err(fault());
        }
        if o == Outcome::CancelAfter {
            return hang().await;
        }
        Ok(results::UpdateResult { matched_count: matched, modified_count: modified, upserted_id: None })
    }
}

impl<T: Serialize> Collection<T> {
    pub async fn insert_one(
        &self,
        doc: impl Borrow<T>,
        _options: impl Into<Option<options::InsertOneOptions>>,
    ) -> error::Result<results::InsertOneResult> {
        let mut d = bson::to_document(doc.borrow()).map_err(|e| error::Error { msg: e.to_string() })?;
        let probe = d.clone();
        let (g, o, actor) = gate(self.client.epoch, "insert_one", &self.name, &probe).await;
        if o == Outcome::FaultBefore {
            log_event(self.event(g, &actor, "insert_one", &probe, "fault-before"));
            return Err(fault());
        }
        let mut st = self.client.store.lock().unwrap();
        st.next_doc += 1;
        let id = st.next_doc;
        let c = st.colls.entry(self.name.clone()).or_default();
        if let Some(msg) = violates_unique(c, &d, None) {
            drop(st);
            log_event(self.event(g, &actor, "insert_one", &probe, "duplicate-key"));
            return Err(error::Error { msg });
        }
        d.insert("_id", Bson::Int64(id as i64));
        c.docs.push(StoredDoc { id, prov: actor.clone(), doc: d.clone() });
        drop(st);
        let mut ev = self.event(g, &actor, "insert_one", &probe, if o == Outcome::Ok { "ok" } else { "fault-after" });
        ev.touched.push(Touched { id, prov: actor.clone(), before: None, after: Some(d) });
        log_event(ev);
        if o == Outcome::FaultAfter {
            return Err(fault());
        }
        if o == Outcome::CancelAfter {
            return hang().await;
        }
        Ok(results::InsertOneResult { inserted_id: Bson::Int64(id as i64) })
    }

    pub async fn replace_one(
        &self,
        query: Document,
        replacement: impl Borrow<T>,
        options: impl Into<Option<options::ReplaceOptions>>,
    ) -> error::Result<results::UpdateResult> {
        let upsert = options.into().and_then(|o| o.upsert).unwrap_or(false);
        let new_doc = bson::to_document(replacement.borrow()).map_err(|e| error::Error { msg: e.to_string() })?;
        let (g, o, actor) = gate(self.client.epoch, "replace_one", &self.name, &query).await;
        if o == Outcome::FaultBefore {
            log_event(self.event(g, &actor, "replace_one", &query, "fault-before"));
            return Err(fault());
        }
        let mut st = self.client.store.lock().unwrap();
        let c = st.colls.entry(self.name.clone()).or_default();
        let pos = c.docs.iter().position(|d| matches(&d.doc, &query));
        if pos.is_none() && upsert {
            // insert the replacement as a new document
            if let Some(msg) = violates_unique(c, &new_doc, None) {
                drop(st);
                log_event(self.event(g, &actor, "replace_one", &query, "duplicate-key"));
                return Err(error::Error { msg });
            }
            let mut nd = new_doc;
            st.next_doc += 1;
            let id = st.next_doc;
            nd.insert("_id", Bson::Int64(id as i64));
            let c = st.colls.entry(self.name.clone()).or_default();
            c.docs.push(StoredDoc { id, prov: actor.clone(), doc: nd.clone() });
            drop(st);
            let mut ev = self.event(g, &actor, "replace_one", &query, if o == Outcome::Ok { "ok" } else { "fault-after" });
            ev.touched.push(Touched { id, prov: actor.clone(), before: None, after: Some(nd) });
            log_event(ev);
            if o == Outcome::FaultAfter {
                return Err(fault());
            }
            if o == Outcome::CancelAfter {
                return hang().await;
            }
            return Ok(results::UpdateResult { matched_count: 0, modified_count: 0, upserted_id: Some(Bson::Int64(id as i64)) });
        }
        let Some(pos) = pos else {
            drop(st);
            log_event(self.event(g, &actor, "replace_one", &query, if o == Outcome::Ok { "ok" } else { "fault-after" }));
            if o == Outcome::FaultAfter {
                return Err(fault());
            }
            if o == Outcome::CancelAfter {
                return hang().await;
            }
            return Ok(results::UpdateResult { matched_count: 0, modified_count: 0, upserted_id: None });
        };
        let id = c.docs[pos].id;
        if let Some(msg) = violates_unique(c, &new_doc, Some(id)) {
            drop(st);
            log_event(self.event(g, &actor, "replace_one", &query, "duplicate-key"));
            return Err(error::Error { msg });
        }
        let before = c.docs[pos].doc.clone();
        let mut nd = new_doc;
        nd.insert("_id", Bson::Int64(id as i64));
        let modified = if nd != before { 1 } else { 0 };
        c.docs[pos].doc = nd.clone();
        let prov = c.docs[pos].prov.clone();
        drop(st);
        let mut ev = self.event(g, &actor, "replace_one", &query, if o == Outcome::Ok { "ok" } else { "fault-after" });
        ev.touched.push(Touched { id, prov, before: Some(before), after: Some(nd) });
        log_event(ev);
        if o == Outcome::FaultAfter {
            return Err(fault());
        }
        if o == Outcome::CancelAfter {
            return hang().await;
        }
        Ok(results::UpdateResult { matched_count: 1, modified_count: modified, upserted_id: None })
    }
}

impl<T: DeserializeOwned> Collection<T> {
    pub async fn find_one(
        &self,
        filter: impl Into<Option<Document>>,
        _options: impl Into<Option<options::FindOneOptions>>,
    ) -> error::Result<Option<T>> {
        let filter = filter.into().unwrap_or_default();
        let (g, o, actor) = gate(self.client.epoch, "find_one", &self.name, &filter).await;
        if o == Outcome::CancelAfter {
            return hang().await;
        }
        if o != Outcome::Ok {
            log_event(self.event(g, &actor, "find_one", &filter, "fault-before"));
            return Err(fault());
        }
        let found = {
            let st = self.client.store.lock().unwrap();
            st.colls.get(&self.name).and_then(|c| {
                c.docs.iter().find(|d| matches(&d.doc, &filter)).map(|d| (d.id, d.prov.clone(), d.doc.clone()))
            })
        };
        let mut ev = self.event(g, &actor, "find_one", &filter, "ok");
        let r = match found {
            None => Ok(None),
            Some((id, prov, doc)) => {
                ev.read.push((id, prov));
                bson::from_document::<T>(doc).map(Some).map_err(|e| error::Error { msg: format!("deserialisation failed: {e}") })
            }
        };
        log_event(ev);
        r
    }

    pub async fn find(
        &self,
        filter: impl Into<Option<Document>>,
        _options: impl Into<Option<options::FindOptions>>,
    ) -> error::Result<Cursor<T>> {
        let filter = filter.into().unwrap_or_default();
        let (g, o, actor) = gate(self.client.epoch, "find", &self.name, &filter).await;
        if o == Outcome::CancelAfter {
            return hang().await;
        }
        if o != Outcome::Ok {
            log_event(self.event(g, &actor, "find", &filter, "fault-before"));
            return Err(fault());
        }
        let found: Vec<(u64, String, Document)> = {
            let st = self.client.store.lock().unwrap();
            st.colls
                .get(&self.name)
                .map(|c| c.docs.iter().filter(|d| matches(&d.doc, &filter)).map(|d| (d.id, d.prov.clone(), d.doc.clone())).collect())
                .unwrap_or_default()
        };
        let mut ev = self.event(g, &actor, "find", &filter, "ok");
        ev.read = found.iter().map(|(id, p, _)| (*id, p.clone())).collect();
        log_event(ev);
        Ok(Cursor { docs: found.into_iter().map(|(_, _, d)| d).collect(), _t: PhantomData })
    }
}

pub struct Cursor<T> {
    docs: std::collections::VecDeque<Document>,
    _t: PhantomData<fn() -> T>,
}

impl<T> Unpin for Cursor<T> {}

impl<T: DeserializeOwned> futures_core::Stream for Cursor<T> {
    type Item = error::Result<T>;
    fn poll_next(mut self: std::pin::Pin<&mut Self>, _cx: &mut std::task::Context<'_>) -> std::task::Poll<Option<Self::Item>> {
        std::task::Poll::Ready(self.docs.pop_front().map(|d| {
            bson::from_document::<T>(d).map_err(|e| error::Error { msg: format!("deserialisation failed: {e}") })
        }))
    }
}
