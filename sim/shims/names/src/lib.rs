//! Simulation stand-in for `names`: candidates come from a source installed by the simulator
//! (`sim_install`), by default a plain counter. The real crate draws adjective-noun-number
//! combinations from the thread RNG; here the candidate stream is a recorded decision, so that
//! temporary user names and generated problem names replay exactly and the "all ten candidates
//! are taken" branch is reachable.

use std::cell::RefCell;

#[derive(Clone, Copy, Debug, PartialEq, Eq)]
pub enum Name {
    Plain,
    Numbered,
}

type Source = Box<dyn FnMut() -> String>;

thread_local! {
    static SOURCE: RefCell<Option<Source>> = const { RefCell::new(None) };
    static COUNTER: RefCell<u64> = const { RefCell::new(0) };
}

/// Install the candidate source for the calling thread (None = counter).
pub fn sim_install(src: Option<Source>) {
    SOURCE.with(|s| *s.borrow_mut() = src);
    COUNTER.with(|c| *c.borrow_mut() = 0);
}

#[derive(Debug)]
pub struct Generator {
    _naming: Name,
}

impl Generator {
    pub fn with_naming(naming: Name) -> Self {
        Generator { _naming: naming }
    }
}

impl Default for Generator {
    fn default() -> Self {
        Generator { _naming: Name::Plain }
    }
}

impl Iterator for Generator {
    type Item = String;
    fn next(&mut self) -> Option<String> {
        let from_src = SOURCE.with(|s| s.borrow_mut().as_mut().map(|f| f()));
        Some(from_src.unwrap_or_else(|| {
            COUNTER.with(|c| {
                let mut c = c.borrow_mut();
                *c += 1;
                format!("generated-name-{:04}", *c)
            })
        }))
    }
}
