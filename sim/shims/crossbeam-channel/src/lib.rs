//! Stand-in for `crossbeam-channel` (FIFO MPMC channel) whose every operation is a scheduling
//! point of `simcore::sched` when the caller is a simulated thread.
//!
//! Semantics follow crossbeam's documentation for the operations provided:
//! * `unbounded()`: `send` never blocks; fails iff all receivers are gone.
//! * `bounded(n)`, n > 0: `send` blocks while the queue holds n messages.
//! * `bounded(0)`: rendezvous — `send` returns only after a receive operation took the message.
//! * `recv` returns queued messages first, then `Err` once all senders are gone; blocks
//!   otherwise. `try_recv` never blocks (`Empty` / `Disconnected`).
//! * dropping the last sender / receiver disconnects and wakes the other side.
//!
//! No loss, duplication or reordering is ever injected: crossbeam guarantees FIFO delivery
//! inside one process, so such a fault could only raise alarms on correct code.
//!
//! Outside a simulated thread the channel is a plain queue; an operation that would have to
//! block there panics (it would hang the real program as well, and the harness wants to know).

use simcore::sched;
use std::collections::VecDeque;
use std::fmt;
use std::sync::{Arc, Mutex, MutexGuard};

struct Chan<T> {
    id: u64,
    q: VecDeque<(u64, T)>,
    cap: Option<usize>,
    senders: usize,
    receivers: usize,
    sent: u64,
    taken: u64,
    /// receivers currently parked in a blocking `recv`
    recv_waiting: usize,
}

type Shared<T> = Arc<Mutex<Chan<T>>>;

fn lock<T>(c: &Shared<T>) -> MutexGuard<'_, Chan<T>> {
    c.lock().unwrap_or_else(|e| e.into_inner())
}

thread_local! {
    static NEXT_ID: std::cell::Cell<u64> = const { std::cell::Cell::new(0) };
}

/// Harness hook: restart channel numbering on the calling thread (ids appear in event logs).
pub fn sim_reset_ids() {
    NEXT_ID.with(|n| n.set(0));
}

fn new_id() -> u64 {
    let local = NEXT_ID.with(|n| {
        let v = n.get();
        n.set(v + 1);
        v
    });
    let t = sched::current().map(|(_, tid)| tid as u64 + 1).unwrap_or(0);
    (t << 24) | local
}

fn recv_key(id: u64) -> u64 {
    id * 2
}
fn send_key(id: u64) -> u64 {
    id * 2 + 1
}

fn wake(key: u64) {
    if let Some((w, _)) = sched::current() {
        w.wake(key);
    }
}

fn sim_log(what: impl FnOnce() -> String) {
    if let Some((w, tid)) = sched::current() {
        w.log(tid, what());
    }
}

pub struct Sender<T> {
    ch: Shared<T>,
}
pub struct Receiver<T> {
    ch: Shared<T>,
}
/// Read-only view for the harness; counts as neither end.
pub struct Probe<T> {
    ch: Shared<T>,
}

fn make<T>(cap: Option<usize>) -> (Sender<T>, Receiver<T>) {
    let ch = Arc::new(Mutex::new(Chan {
        id: new_id(),
        q: VecDeque::new(),
        cap,
        senders: 1,
        receivers: 1,
        sent: 0,
        taken: 0,
        recv_waiting: 0,
    }));
    (Sender { ch: ch.clone() }, Receiver { ch })
}

pub fn unbounded<T>() -> (Sender<T>, Receiver<T>) {
    make(None)
}

pub fn bounded<T>(cap: usize) -> (Sender<T>, Receiver<T>) {
    make(Some(cap))
}

#[derive(PartialEq, Eq, Clone, Copy)]
pub struct SendError<T>(pub T);
impl<T> fmt::Debug for SendError<T> {
    fn fmt(&self, f: &mut fmt::Formatter<'_>) -> fmt::Result {
        "SendError(..)".fmt(f)
    }
}
impl<T> fmt::Display for SendError<T> {
    fn fmt(&self, f: &mut fmt::Formatter<'_>) -> fmt::Result {
        "sending on a disconnected channel".fmt(f)
    }
}
impl<T: Send> std::error::Error for SendError<T> {}
impl<T> SendError<T> {
    pub fn into_inner(self) -> T {
        self.0
    }
}

#[derive(PartialEq, Eq, Clone, Copy)]
pub enum TrySendError<T> {
    Full(T),
    Disconnected(T),
}
impl<T> fmt::Debug for TrySendError<T> {
    fn fmt(&self, f: &mut fmt::Formatter<'_>) -> fmt::Result {
        match self {
            TrySendError::Full(..) => "Full(..)".fmt(f),
            TrySendError::Disconnected(..) => "Disconnected(..)".fmt(f),
        }
    }
}
impl<T> fmt::Display for TrySendError<T> {
    fn fmt(&self, f: &mut fmt::Formatter<'_>) -> fmt::Result {
        match self {
            TrySendError::Full(..) => "sending on a full channel".fmt(f),
            TrySendError::Disconnected(..) => "sending on a disconnected channel".fmt(f),
        }
    }
}
impl<T: Send> std::error::Error for TrySendError<T> {}
impl<T> TrySendError<T> {
    pub fn into_inner(self) -> T {
        match self {
            TrySendError::Full(v) | TrySendError::Disconnected(v) => v,
        }
    }
    pub fn is_full(&self) -> bool {
        matches!(self, TrySendError::Full(_))
    }
    pub fn is_disconnected(&self) -> bool {
        matches!(self, TrySendError::Disconnected(_))
    }
}
impl<T> From<SendError<T>> for TrySendError<T> {
    fn from(e: SendError<T>) -> Self {
        TrySendError::Disconnected(e.0)
    }
}

#[derive(PartialEq, Eq, Clone, Copy)]
pub enum SendTimeoutError<T> {
    Timeout(T),
    Disconnected(T),
}
impl<T> fmt::Debug for SendTimeoutError<T> {
    fn fmt(&self, f: &mut fmt::Formatter<'_>) -> fmt::Result {
        match self {
            SendTimeoutError::Timeout(..) => "Timeout(..)".fmt(f),
            SendTimeoutError::Disconnected(..) => "Disconnected(..)".fmt(f),
        }
    }
}
impl<T> fmt::Display for SendTimeoutError<T> {
    fn fmt(&self, f: &mut fmt::Formatter<'_>) -> fmt::Result {
        match self {
            SendTimeoutError::Timeout(..) => "timed out waiting on send operation".fmt(f),
            SendTimeoutError::Disconnected(..) => "sending on a disconnected channel".fmt(f),
        }
    }
}
impl<T: Send> std::error::Error for SendTimeoutError<T> {}
impl<T> SendTimeoutError<T> {
    pub fn into_inner(self) -> T {
        match self {
            SendTimeoutError::Timeout(v) | SendTimeoutError::Disconnected(v) => v,
        }
    }
    pub fn is_timeout(&self) -> bool {
        matches!(self, SendTimeoutError::Timeout(_))
    }
    pub fn is_disconnected(&self) -> bool {
        matches!(self, SendTimeoutError::Disconnected(_))
    }
}
impl<T> From<SendError<T>> for SendTimeoutError<T> {
    fn from(e: SendError<T>) -> Self {
        SendTimeoutError::Disconnected(e.0)
    }
}

#[derive(PartialEq, Eq, Clone, Copy, Debug)]
pub enum RecvTimeoutError {
    Timeout,
    Disconnected,
}
impl fmt::Display for RecvTimeoutError {
    fn fmt(&self, f: &mut fmt::Formatter<'_>) -> fmt::Result {
        match self {
            RecvTimeoutError::Timeout => "timed out waiting on receive operation".fmt(f),
            RecvTimeoutError::Disconnected => "channel is empty and disconnected".fmt(f),
        }
    }
}
impl std::error::Error for RecvTimeoutError {}

#[derive(PartialEq, Eq, Clone, Copy, Debug)]
pub struct RecvError;
impl fmt::Display for RecvError {
    fn fmt(&self, f: &mut fmt::Formatter<'_>) -> fmt::Result {
        "receiving on an empty and disconnected channel".fmt(f)
    }
}
impl std::error::Error for RecvError {}

#[derive(PartialEq, Eq, Clone, Copy, Debug)]
pub enum TryRecvError {
    Empty,
    Disconnected,
}
impl fmt::Display for TryRecvError {
    fn fmt(&self, f: &mut fmt::Formatter<'_>) -> fmt::Result {
        match self {
            TryRecvError::Empty => "receiving on an empty channel".fmt(f),
            TryRecvError::Disconnected => "receiving on an empty and disconnected channel".fmt(f),
        }
    }
}
impl std::error::Error for TryRecvError {}
impl TryRecvError {
    pub fn is_empty(&self) -> bool {
        matches!(self, TryRecvError::Empty)
    }
    pub fn is_disconnected(&self) -> bool {
        matches!(self, TryRecvError::Disconnected)
    }
}

fn sched_point() {
    if let Some((w, me)) = sched::current() {
        w.yield_point(me);
    }
}

fn block_on(key: u64, what: &str) {
    match sched::current() {
        Some((w, me)) => w.block(me, key),
        None => panic!("crossbeam-channel shim: {what} would block outside a simulation"),
    }
}

impl<T> Sender<T> {
    pub fn send(&self, msg: T) -> Result<(), SendError<T>> {
        sched_point();
        let mut g = lock(&self.ch);
        let id = g.id;
        if g.receivers == 0 {
            drop(g);
            sim_log(|| format!("send ch{id:x} -> disconnected"));
            return Err(SendError(msg));
        }
        match g.cap {
            None => {
                g.sent += 1;
                let t = g.sent;
                g.q.push_back((t, msg));
                let len = g.q.len();
                drop(g);
                wake(recv_key(id));
                sim_log(|| format!("send ch{id:x} #{t} len={len}"));
                Ok(())
            }
            Some(0) => {
                g.sent += 1;
                let t = g.sent;
                g.q.push_back((t, msg));
                drop(g);
                wake(recv_key(id));
                sim_log(|| format!("send ch{id:x} #{t} rendezvous-offer"));
                loop {
                    let mut g = lock(&self.ch);
                    let still_queued = g.q.iter().position(|(k, _)| *k == t);
                    match still_queued {
                        None => {
                            drop(g);
                            sim_log(|| format!("send ch{id:x} #{t} rendezvous-done"));
                            return Ok(());
                        }
                        Some(pos) => {
                            if g.receivers == 0 {
                                let (_, m) = g.q.remove(pos).unwrap();
                                drop(g);
                                sim_log(|| format!("send ch{id:x} #{t} -> disconnected"));
                                return Err(SendError(m));
                            }
                            drop(g);
                            block_on(send_key(id), "send on a rendezvous channel");
                        }
                    }
                }
            }
            Some(c) => {
                let mut msg = Some(msg);
                loop {
                    if g.receivers == 0 {
                        drop(g);
                        sim_log(|| format!("send ch{id:x} -> disconnected"));
                        return Err(SendError(msg.take().unwrap()));
                    }
                    if g.q.len() < c {
                        g.sent += 1;
                        let t = g.sent;
                        g.q.push_back((t, msg.take().unwrap()));
                        let len = g.q.len();
                        drop(g);
                        wake(recv_key(id));
                        sim_log(|| format!("send ch{id:x} #{t} len={len}"));
                        return Ok(());
                    }
                    drop(g);
                    sim_log(|| format!("send ch{id:x} full -> block"));
                    block_on(send_key(id), "send on a full bounded channel");
                    g = lock(&self.ch);
                }
            }
        }
    }

    /// Non-blocking send: `Full` when a bounded channel holds `cap` messages (for a rendezvous
    /// channel: when no receiver is blocked in `recv` right now), `Disconnected` when all
    /// receivers are gone.
    pub fn try_send(&self, msg: T) -> Result<(), TrySendError<T>> {
        sched_point();
        let mut g = lock(&self.ch);
        let id = g.id;
        if g.receivers == 0 {
            drop(g);
            sim_log(|| format!("try_send ch{id:x} -> disconnected"));
            return Err(TrySendError::Disconnected(msg));
        }
        let room = match g.cap {
            None => true,
            Some(0) => g.recv_waiting > 0 && g.q.is_empty(),
            Some(c) => g.q.len() < c,
        };
        if !room {
            drop(g);
            sim_log(|| format!("try_send ch{id:x} -> full"));
            return Err(TrySendError::Full(msg));
        }
        g.sent += 1;
        let t = g.sent;
        g.q.push_back((t, msg));
        drop(g);
        wake(recv_key(id));
        sim_log(|| format!("try_send ch{id:x} #{t}"));
        Ok(())
    }

    /// The simulation has no clock for the library: a send with a timeout makes its offer, gives
    /// the other threads one chance to run and reports `Timeout` if there is still no room (for
    /// a rendezvous channel: if nobody took the offered message) - the peer was slower than the
    /// timeout, which a real deployment can meet at any time.
    pub fn send_timeout(&self, msg: T, _timeout: std::time::Duration) -> Result<(), SendTimeoutError<T>> {
        let cap = lock(&self.ch).cap;
        if cap == Some(0) {
            sched_point();
            let mut g = lock(&self.ch);
            let id = g.id;
            if g.receivers == 0 {
                drop(g);
                return Err(SendTimeoutError::Disconnected(msg));
            }
            g.sent += 1;
            let t = g.sent;
            g.q.push_back((t, msg));
            drop(g);
            wake(recv_key(id));
            sim_log(|| format!("send_timeout ch{id:x} #{t} rendezvous-offer"));
            sched_point();
            let mut g = lock(&self.ch);
            return match g.q.iter().position(|(k, _)| *k == t) {
                None => Ok(()),
                Some(pos) => {
                    let (_, m) = g.q.remove(pos).unwrap();
                    let gone = g.receivers == 0;
                    drop(g);
                    sim_log(|| format!("send_timeout ch{id:x} #{t} -> timeout"));
                    Err(if gone { SendTimeoutError::Disconnected(m) } else { SendTimeoutError::Timeout(m) })
                }
            };
        }
        match self.try_send(msg) {
            Ok(()) => Ok(()),
            Err(TrySendError::Disconnected(m)) => Err(SendTimeoutError::Disconnected(m)),
            Err(TrySendError::Full(m)) => {
                sched_point();
                match self.try_send(m) {
                    Ok(()) => Ok(()),
                    Err(TrySendError::Disconnected(m)) => Err(SendTimeoutError::Disconnected(m)),
                    Err(TrySendError::Full(m)) => Err(SendTimeoutError::Timeout(m)),
                }
            }
        }
    }

    pub fn capacity(&self) -> Option<usize> {
        lock(&self.ch).cap
    }
    pub fn is_full(&self) -> bool {
        // observing shared channel state is a scheduling point too: code that spins on it must
        // hand control back to the scheduler
        sched_point();
        let g = lock(&self.ch);
        match g.cap {
            None => false,
            Some(c) => g.q.len() >= c,
        }
    }
    pub fn same_channel(&self, other: &Sender<T>) -> bool {
        Arc::ptr_eq(&self.ch, &other.ch)
    }
    pub fn len(&self) -> usize {
        sched_point();
        let g = lock(&self.ch);
        // like crossbeam: a zero-capacity channel is always empty (and always full)
        if g.cap == Some(0) {
            0
        } else {
            g.q.len()
        }
    }
    pub fn is_empty(&self) -> bool {
        self.len() == 0
    }
    pub fn sim_probe(&self) -> Probe<T> {
        Probe {
            ch: self.ch.clone(),
        }
    }
}

impl<T> Clone for Sender<T> {
    fn clone(&self) -> Self {
        lock(&self.ch).senders += 1;
        Sender {
            ch: self.ch.clone(),
        }
    }
}

impl<T> Drop for Sender<T> {
    fn drop(&mut self) {
        let mut g = lock(&self.ch);
        g.senders -= 1;
        let (id, left) = (g.id, g.senders);
        drop(g);
        if left == 0 {
            wake(recv_key(id));
        }
        sim_log(|| format!("drop-sender ch{id:x} left={left}"));
    }
}

impl<T> fmt::Debug for Sender<T> {
    fn fmt(&self, f: &mut fmt::Formatter<'_>) -> fmt::Result {
        f.pad("Sender { .. }")
    }
}

impl<T> Receiver<T> {
    fn take(&self, g: &mut MutexGuard<'_, Chan<T>>) -> Option<(u64, T)> {
        let r = g.q.pop_front();
        if r.is_some() {
            g.taken += 1;
        }
        r
    }

    pub fn try_recv(&self) -> Result<T, TryRecvError> {
        sched_point();
        let mut g = lock(&self.ch);
        let id = g.id;
        match self.take(&mut g) {
            Some((t, m)) => {
                drop(g);
                wake(send_key(id));
                sim_log(|| format!("try_recv ch{id:x} #{t}"));
                Ok(m)
            }
            None => {
                let disc = g.senders == 0;
                drop(g);
                sim_log(|| {
                    format!(
                        "try_recv ch{id:x} {}",
                        if disc { "disconnected" } else { "empty" }
                    )
                });
                if disc {
                    Err(TryRecvError::Disconnected)
                } else {
                    Err(TryRecvError::Empty)
                }
            }
        }
    }

    pub fn recv(&self) -> Result<T, RecvError> {
        sched_point();
        loop {
            let mut g = lock(&self.ch);
            let id = g.id;
            if let Some((t, m)) = self.take(&mut g) {
                drop(g);
                wake(send_key(id));
                sim_log(|| format!("recv ch{id:x} #{t}"));
                return Ok(m);
            }
            if g.senders == 0 {
                drop(g);
                sim_log(|| format!("recv ch{id:x} disconnected"));
                return Err(RecvError);
            }
            g.recv_waiting += 1;
            drop(g);
            sim_log(|| format!("recv ch{id:x} empty -> block"));
            struct Waiting<'a, T>(&'a Shared<T>);
            impl<T> Drop for Waiting<'_, T> {
                fn drop(&mut self) {
                    lock(self.0).recv_waiting -= 1;
                }
            }
            let _w = Waiting(&self.ch);
            block_on(recv_key(id), "recv on an empty channel with live senders");
        }
    }

    /// The simulation has no clock for the library: a receive with a timeout is a receive that
    /// gives the other threads one chance to run and then reports `Timeout` if nothing arrived.
    pub fn recv_timeout(&self, _timeout: std::time::Duration) -> Result<T, RecvTimeoutError> {
        match self.try_recv() {
            Ok(m) => Ok(m),
            Err(TryRecvError::Disconnected) => Err(RecvTimeoutError::Disconnected),
            Err(TryRecvError::Empty) => match self.try_recv() {
                Ok(m) => Ok(m),
                Err(TryRecvError::Disconnected) => Err(RecvTimeoutError::Disconnected),
                Err(TryRecvError::Empty) => Err(RecvTimeoutError::Timeout),
            },
        }
    }

    pub fn capacity(&self) -> Option<usize> {
        lock(&self.ch).cap
    }

    pub fn iter(&self) -> Iter<'_, T> {
        Iter { r: self }
    }
    pub fn try_iter(&self) -> TryIter<'_, T> {
        TryIter { r: self }
    }
    pub fn len(&self) -> usize {
        sched_point();
        let g = lock(&self.ch);
        // like crossbeam: a zero-capacity channel is always empty (and always full)
        if g.cap == Some(0) {
            0
        } else {
            g.q.len()
        }
    }
    pub fn is_empty(&self) -> bool {
        self.len() == 0
    }
    pub fn is_full(&self) -> bool {
        sched_point();
        let g = lock(&self.ch);
        match g.cap {
            None => false,
            Some(c) => g.q.len() >= c,
        }
    }
    pub fn sim_probe(&self) -> Probe<T> {
        Probe {
            ch: self.ch.clone(),
        }
    }
}

impl<T> Clone for Receiver<T> {
    fn clone(&self) -> Self {
        lock(&self.ch).receivers += 1;
        Receiver {
            ch: self.ch.clone(),
        }
    }
}

impl<T> Drop for Receiver<T> {
    fn drop(&mut self) {
        let mut g = lock(&self.ch);
        g.receivers -= 1;
        let (id, left) = (g.id, g.receivers);
        // like crossbeam: when the last receiver goes, messages of *non-blocked* senders are
        // discarded; rendezvous offers stay so that their blocked sender gets its message back
        let dropped: Vec<(u64, T)> = if left == 0 && g.cap != Some(0) {
            g.q.drain(..).collect()
        } else {
            Vec::new()
        };
        drop(g);
        drop(dropped);
        if left == 0 {
            wake(send_key(id));
        }
        sim_log(|| format!("drop-receiver ch{id:x} left={left}"));
    }
}

impl<T> fmt::Debug for Receiver<T> {
    fn fmt(&self, f: &mut fmt::Formatter<'_>) -> fmt::Result {
        f.pad("Receiver { .. }")
    }
}

pub struct Iter<'a, T> {
    r: &'a Receiver<T>,
}
impl<T> Iterator for Iter<'_, T> {
    type Item = T;
    fn next(&mut self) -> Option<T> {
        self.r.recv().ok()
    }
}

pub struct TryIter<'a, T> {
    r: &'a Receiver<T>,
}
impl<T> Iterator for TryIter<'_, T> {
    type Item = T;
    fn next(&mut self) -> Option<T> {
        self.r.try_recv().ok()
    }
}

pub struct IntoIter<T> {
    r: Receiver<T>,
}
impl<T> Iterator for IntoIter<T> {
    type Item = T;
    fn next(&mut self) -> Option<T> {
        self.r.recv().ok()
    }
}
impl<T> IntoIterator for Receiver<T> {
    type Item = T;
    type IntoIter = IntoIter<T>;
    fn into_iter(self) -> IntoIter<T> {
        IntoIter { r: self }
    }
}
impl<'a, T> IntoIterator for &'a Receiver<T> {
    type Item = T;
    type IntoIter = Iter<'a, T>;
    fn into_iter(self) -> Iter<'a, T> {
        self.iter()
    }
}

impl<T> Probe<T> {
    /// messages ever accepted by `send`
    pub fn sent(&self) -> u64 {
        lock(&self.ch).sent
    }
    /// messages ever handed to a receive operation
    pub fn taken(&self) -> u64 {
        lock(&self.ch).taken
    }
    pub fn queued(&self) -> usize {
        lock(&self.ch).q.len()
    }
    pub fn senders(&self) -> usize {
        lock(&self.ch).senders
    }
    pub fn receivers(&self) -> usize {
        lock(&self.ch).receivers
    }
    pub fn id(&self) -> u64 {
        lock(&self.ch).id
    }
}
