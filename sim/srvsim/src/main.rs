//! srvsim — the adf-bdd web service inside one deterministic, single-threaded simulated world.
//!
//! The handlers, DTOs, graph builder and user code are the files under /repo/server/src
//! (`#[path]`-included below); the application wiring is cut out of /repo/server/src/main.rs by
//! build.rs. MongoDB, the `names` generator, the network and the clock are simulated.
#![allow(unused_imports, dead_code)]

// every `use` item of /repo/server/src/main.rs, so that the extracted wiring compiles as there
include!(concat!(env!("OUT_DIR"), "/imports.rs"));

#[path = "/repo/server/src/adf.rs"]
mod adf;
#[path = "/repo/server/src/config.rs"]
mod config;
#[path = "/repo/server/src/double_labeled_graph.rs"]
mod double_labeled_graph;
#[path = "/repo/server/src/user.rs"]
mod user;
#[cfg(adf_obdd_verif)]
#[path = "/repo/server/src/verif_seam.rs"]
mod verif_seam;

mod blocking;
mod dbround;
mod isolate;
mod oracle16;
mod scen;
mod solo;
mod world;

pub(crate) type BoxedResp = actix_web::dev::ServiceResponse<actix_web::body::BoxBody>;
pub(crate) type Svc = std::rc::Rc<
    dyn Fn(
        actix_http::Request,
    ) -> futures_util::future::LocalBoxFuture<'static, Result<BoxedResp, actix_web::Error>>,
>;

/// Assemble the service exactly as `main` does: same `AppState`, same wiring closure body.
pub(crate) async fn build_service(app_data: web::Data<AppState>, secret_key: Key) -> Svc {
    let app = include!(concat!(env!("OUT_DIR"), "/app_wiring.rs"));
    let svc = std::rc::Rc::new(actix_web::test::init_service(app).await);
    std::rc::Rc::new(move |req| {
        let svc = svc.clone();
        Box::pin(async move {
            use actix_web::dev::Service;
            svc.call(req).await.map(|r| r.map_into_boxed_body())
        })
    })
}

pub(crate) fn new_app_state(client: mongodb::Client) -> web::Data<AppState> {
    web::Data::new(AppState {
        mongodb_client: client,
        currently_running: Mutex::new(HashSet::new()),
    })
}

fn lookup(scenario: &str, property: &str) -> Option<Box<dyn simcore::cli::Dyn>> {
    match (scenario, property) {
        ("isolation", "C17") => Some(Box::new(scen::Service { property: "C17", name: "isolation" })),
        ("contended", "C17") => Some(Box::new(scen::Service { property: "C17", name: "contended" })),
        ("answers", "C16") => Some(Box::new(scen::Service { property: "C16", name: "answers" })),
        ("dbround", "C14") => Some(Box::new(dbround::DbRound)),
        _ => None,
    }
}

fn main() {
    blocking::install();
    let args: Vec<String> = std::env::args().collect();
    let code = match args.get(1).map(|s| s.as_str()) {
        Some("run") => simcore::cli::cmd_run("srvsim", &args[2..], &lookup),
        Some("replay") => simcore::cli::cmd_replay(&args[2..], &lookup),
        Some("dump") => simcore::cli::cmd_dump("srvsim", &args[2..], &lookup),
        _ => {
            eprintln!("usage: srvsim run|replay ...");
            2
        }
    };
    std::process::exit(code);
}
