//! O5 of C17 — non-interference by re-execution: client X's observable history (status and
//! canonical body of every scripted request) in the shared world must equal the history of the
//! same script and the *projection of the same schedule onto X's actors* executed alone in a
//! fresh world. The real code is its own specification of "what X would see alone".
//!
//! Judged in the disjoint-name configuration with the large temporary-name space only (account
//! names being unique is the one interference the property allows; temporary names are scrubbed
//! from the bodies because the hand-out counter is global).

use crate::scen::{canonical_body, Rq, SrvCase};
use crate::world::{pump, World};
use mongodb::sim::Outcome;

#[derive(Clone, Debug)]
pub enum ActKind {
    Issue,
    /// completion of a database call: of the client's request (None) or of the continuation of
    /// the client's k-th background task (Some(k))
    Gate { bg_task_ord: Option<usize>, outcome: Outcome },
    Release { task_ord: usize },
    Jump,
}

#[derive(Clone, Debug)]
pub struct ActRec {
    /// usize::MAX = global (clock jump)
    pub client: usize,
    pub kind: ActKind,
}

pub type Obs = Vec<(usize, u16, String)>;

pub fn scrub_temp_names(s: &str) -> String {
    let mut out = String::with_capacity(s.len());
    let mut rest = s;
    while let Some(p) = rest.find("tmp-") {
        out.push_str(&rest[..p + 4]);
        rest = &rest[p + 4..];
        let digits = rest.chars().take_while(|c| c.is_ascii_digit()).count();
        if digits > 0 {
            out.push('#');
            rest = &rest[digits..];
        }
    }
    out.push_str(rest);
    out
}

pub fn observe(req_no: usize, status: u16, body: &str) -> (usize, u16, String) {
    (req_no, status, scrub_temp_names(&canonical_body(body)))
}

/// Execute client `c` alone. `Err` = the projected schedule could not be executed (the client's
/// handlers made different database calls than in the shared world).
pub async fn solo(case: &SrvCase, c: usize, actions: &[ActRec], key_seed: u64, build: &dyn Fn(&Option<String>, &Rq) -> actix_http::Request) -> Result<Obs, String> {
    {
        let counter = std::cell::Cell::new(0u64);
        names::sim_install(Some(Box::new(move || {
            counter.set(counter.get() + 1);
            format!("tmp-{:04}", counter.get())
        })));
    }
    let mut w = World::new(key_seed).await;
    let mut jar: Option<String> = None;
    let mut pos = 0usize;
    let mut obs: Obs = Vec::new();
    let mut my_tasks: Vec<u64> = Vec::new();
    let script = &case.clients[c];
    let mut result: Result<(), String> = Ok(());
    for (n, a) in actions.iter().enumerate() {
        if a.client != c && a.client != usize::MAX {
            continue;
        }
        match &a.kind {
            ActKind::Issue => {
                if pos >= script.len() {
                    result = Err(format!("action {n}: script exhausted"));
                    break;
                }
                let rq = script[pos].clone();
                let tag = format!("c{c}#{pos}{}", if jar.is_some() { "+ck" } else { "" });
                let req = build(&jar, &rq);
                pos += 1;
                w.now_ms += 1;
                tokio::time::advance(std::time::Duration::from_millis(1)).await;
                w.issue(c, tag, req);
                pump().await;
                w.settle_request(c).await;
            }
            ActKind::Gate { bg_task_ord, outcome } => {
                let gates = w.pending_gates();
                let g = match bg_task_ord {
                    None => gates.iter().find(|g| g.tag.is_some()).cloned(),
                    Some(k) => my_tasks.get(*k).and_then(|tid| gates.iter().find(|g| w.cont_gate.get(&g.id) == Some(tid)).cloned()),
                };
                let Some(g) = g else {
                    result = Err(format!("action {n}: alone, the client has no pending database call of {} to complete (pending: {:?})", if bg_task_ord.is_some() { "that background task" } else { "its request" }, gates.iter().map(|g| (g.op, g.tag.clone())).collect::<Vec<_>>()));
                    break;
                };
                let actor = g.tag.clone().unwrap_or_else(|| format!("c{c}#bg~bg"));
                w.release_gate(g.id, *outcome, &actor).await;
            }
            ActKind::Release { task_ord } => {
                let Some(tid) = my_tasks.get(*task_ord).copied() else {
                    result = Err(format!("action {n}: alone, the client never started its background task #{task_ord}"));
                    break;
                };
                w.release_task(tid).await;
            }
            ActKind::Jump => {
                w.advance(121_000).await;
            }
        }
        mongodb::sim::take_events();
        for (_cc, tag, resp) in w.take_completed() {
            if let Some(ck) = &resp.cookie {
                jar = ck.clone();
            }
            let req_no: usize = tag.trim_end_matches("+ck").split('#').nth(1).and_then(|x| x.parse().ok()).unwrap_or(0);
            obs.push(observe(req_no, resp.status, &resp.body));
            if resp.status == 200 && matches!(script[req_no], Rq::Add { .. } | Rq::Solve { .. }) {
                match w.expect_task(c, req_no, None) {
                    Some(tid) => my_tasks.push(tid),
                    None => {
                        result = Err("alone, an acknowledged add/solve started no background task".into());
                    }
                }
            }
        }
        if w.harness_error.is_some() || w.hung_task.is_some() || result.is_err() {
            break;
        }
    }
    let herr = w.harness_error.clone();
    w.teardown().await;
    names::sim_install(None);
    if let Some(e) = herr {
        return Err(format!("solo world harness error: {e}"));
    }
    result.map(|_| obs)
}
