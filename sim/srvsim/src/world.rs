//! Mechanics of one simulated world: the service, in-flight requests as tagged local tasks,
//! database gates, parked blocking closures, the paused clock.

use crate::blocking::{self, TaskRec};
use crate::{build_service, new_app_state, Svc};
use actix_web::cookie::Key;
use mongodb::sim::{GateInfo, Outcome};
use std::cell::RefCell;
use std::collections::BTreeMap;
use std::future::Future;
use std::pin::Pin;
use std::rc::Rc;
use std::task::{Context, Poll};
use std::time::Duration;

#[derive(Clone, Debug)]
pub struct Resp {
    pub status: u16,
    pub body: String,
    /// Some(Some(v)) = cookie set to v, Some(None) = cookie removed, None = untouched
    pub cookie: Option<Option<String>>,
}

impl Resp {
    pub fn json(&self) -> Option<serde_json::Value> {
        serde_json::from_str(&self.body).ok()
    }
}

/// Future wrapper that labels every database call made while it is being polled.
struct Tagged<F> {
    tag: String,
    inner: Pin<Box<F>>,
}

impl<F: Future> Future for Tagged<F> {
    type Output = F::Output;
    fn poll(mut self: Pin<&mut Self>, cx: &mut Context<'_>) -> Poll<F::Output> {
        let prev = mongodb::sim::set_tag(Some(self.tag.clone()));
        let r = self.inner.as_mut().poll(cx);
        mongodb::sim::set_tag(prev);
        r
    }
}

pub struct InFlight {
    pub client: usize,
    pub tag: String,
    pub slot: Rc<RefCell<Option<Result<Resp, String>>>>,
    pub handle: tokio::task::JoinHandle<()>,
}

#[derive(Clone, Debug, PartialEq, Eq)]
pub enum Cont {
    /// the continuation has not reached its database call yet
    NotYet,
    /// its `update_one` is parked at this gate
    Gate(u64),
    Done,
}

#[derive(Clone, Debug)]
pub struct TaskMeta {
    pub id: u64,
    pub client: usize,
    /// ordinal of the spawning request in that client's script
    pub req_no: usize,
    pub username: String,
    pub adf_name: String,
    pub task: String,
    pub deadline_ms: u64,
    pub released: bool,
    pub ended: bool,
    pub panicked: bool,
    pub timed_out: bool,
    pub cont: Cont,
    /// id of the stored problem document the spawning request worked on
    pub doc_id: Option<u64>,
    /// the task was in flight when the server process was restarted: whatever it computed
    /// never reached the store
    pub died: bool,
}

pub struct World {
    pub svc: Svc,
    pub app_data: actix_web::web::Data<crate::config::AppState>,
    pub db: mongodb::Client,
    pub inflight: Vec<InFlight>,
    pub tasks: BTreeMap<u64, TaskMeta>,
    pub now_ms: u64,
    /// continuation gates already attributed: gate id -> task id
    pub cont_gate: BTreeMap<u64, u64>,
    /// tasks whose continuation is expected to reach the database next, in order
    expected: std::collections::VecDeque<u64>,
    pub harness_error: Option<String>,
    /// a released closure that did not end
    pub hung_task: Option<u64>,
    pub key: Key,
    pub incarnation: u32,
}

pub const COOKIE_NAME: &str = "adf-obdd-service-auth";

pub async fn pump() {
    for _ in 0..40 {
        tokio::task::yield_now().await;
    }
}

impl World {
    pub async fn new(seed: u64) -> World {
        mongodb::sim::reset();
        blocking::reset();
        let db = mongodb::Client::sim_new();
        mongodb::sim::set_auto(true);
        crate::user::create_username_index(&db).await;
        let mut kb = [0u8; 64];
        let mut r = simcore::Rng::new(seed ^ 0x5e55_10_4b);
        for c in kb.chunks_mut(8) {
            c.copy_from_slice(&r.next_u64().to_le_bytes());
        }
        let key = Key::from(&kb);
        let app_data = new_app_state(db.clone());
        let svc = build_service(app_data.clone(), key.clone()).await;
        mongodb::sim::set_auto(false);
        mongodb::sim::take_events();
        World {
            svc,
            app_data,
            db,
            inflight: Vec::new(),
            tasks: BTreeMap::new(),
            now_ms: 0,
            cont_gate: BTreeMap::new(),
            expected: Default::default(),
            harness_error: None,
            hung_task: None,
            key,
            incarnation: 0,
        }
    }

    /// Send a request as its own local task; every database call it makes carries `tag`.
    pub fn issue(&mut self, client: usize, tag: String, req: actix_http::Request) {
        let slot: Rc<RefCell<Option<Result<Resp, String>>>> = Rc::new(RefCell::new(None));
        let slot2 = slot.clone();
        let svc = self.svc.clone();
        let fut = async move {
            let r = svc(req).await;
            let out = match r {
                Ok(resp) => Ok(read_response(resp).await),
                Err(e) => {
                    let resp = actix_web::HttpResponse::from_error(e);
                    let status = resp.status().as_u16();
                    let body = actix_web::body::to_bytes(resp.into_body()).await.map(|b| String::from_utf8_lossy(&b).to_string()).unwrap_or_default();
                    Ok(Resp { status, body, cookie: None })
                }
            };
            *slot2.borrow_mut() = Some(out);
        };
        let handle = actix_rt::spawn(Tagged { tag: tag.clone(), inner: Box::pin(fut) });
        self.inflight.push(InFlight { client, tag, slot, handle });
    }

    /// After a request was issued: wait until it has either completed or reached a database
    /// call. Extracting an uploaded file goes through tokio's blocking pool (real threads), so
    /// the handler may not have got there within the bounded pumping; the simulator waits for
    /// the observable event, never for a duration.
    pub async fn settle_request(&mut self, client: usize) {
        let t0 = std::time::Instant::now();
        loop {
            let Some(f) = self.inflight.iter().find(|f| f.client == client) else { return };
            if f.slot.borrow().is_some() {
                return;
            }
            let tag = f.tag.clone();
            if mongodb::sim::pending().iter().any(|g| g.tag.as_deref() == Some(tag.as_str())) {
                return;
            }
            if t0.elapsed() > Duration::from_secs(20) {
                self.harness_error = Some(format!("request {tag} neither completed nor reached a database call"));
                return;
            }
            std::thread::sleep(Duration::from_micros(50));
            pump().await;
        }
    }

    pub fn take_completed(&mut self) -> Vec<(usize, String, Resp)> {
        let mut out = Vec::new();
        let mut i = 0;
        while i < self.inflight.len() {
            let done = self.inflight[i].slot.borrow().is_some();
            if done {
                let f = self.inflight.remove(i);
                let taken = f.slot.borrow_mut().take().unwrap();
                match taken {
                    Ok(r) => out.push((f.client, f.tag, r)),
                    Err(e) => self.harness_error = Some(e),
                }
            } else {
                i += 1;
            }
        }
        out
    }

    pub fn pending_gates(&self) -> Vec<GateInfo> {
        mongodb::sim::pending()
    }

    /// Attribute newly arrived untagged gates (continuations) to the tasks expected next.
    fn attribute_new_cont_gates(&mut self) {
        for g in mongodb::sim::pending() {
            if g.tag.is_none() && !self.cont_gate.contains_key(&g.id) {
                if let Some(tid) = self.expected.pop_front() {
                    self.cont_gate.insert(g.id, tid);
                    if let Some(t) = self.tasks.get_mut(&tid) {
                        t.cont = Cont::Gate(g.id);
                    }
                } else {
                    self.harness_error = Some(format!("untagged database call without an expected continuation: {:?} {:?}", g.op, g.filter));
                }
            }
        }
    }

    /// Pump until the continuation of every expected task has reached its database call.
    async fn settle_expected(&mut self) {
        let t0 = std::time::Instant::now();
        loop {
            pump().await;
            self.attribute_new_cont_gates();
            if self.expected.is_empty() || self.harness_error.is_some() {
                return;
            }
            if t0.elapsed() > Duration::from_secs(20) {
                self.harness_error = Some(format!("continuation of task(s) {:?} never reached the database", self.expected));
                return;
            }
            std::thread::sleep(Duration::from_micros(50));
        }
    }

    /// A request of `client` was acknowledged with 200 by add/solve: wait for its closure to
    /// arrive at BlockingStart and record it.
    pub fn expect_task(&mut self, client: usize, req_no: usize, doc_id: Option<u64>) -> Option<u64> {
        let want = self.tasks.len() + 1;
        if !blocking::wait_arrivals(want) {
            return None;
        }
        let snap = blocking::snapshot();
        let rec: &TaskRec = snap.iter().find(|t| !self.tasks.contains_key(&t.id))?;
        self.tasks.insert(
            rec.id,
            TaskMeta {
                id: rec.id,
                client,
                req_no,
                username: rec.username.clone(),
                adf_name: rec.adf_name.clone(),
                task: rec.task.clone(),
                deadline_ms: self.now_ms + 120_000,
                released: false,
                ended: false,
                panicked: false,
                timed_out: false,
                cont: Cont::NotYet,
                doc_id,
                died: false,
            },
        );
        Some(rec.id)
    }

    pub async fn release_gate(&mut self, id: u64, outcome: Outcome, actor: &str) {
        if !mongodb::sim::release(id, outcome, actor) {
            self.harness_error = Some(format!("gate {id} is not pending"));
            return;
        }
        if let Some(tid) = self.cont_gate.get(&id).copied() {
            if let Some(t) = self.tasks.get_mut(&tid) {
                t.cont = Cont::Done;
            }
        }
        pump().await;
    }

    /// Let a parked closure run to its end; afterwards its continuation (if the deadline has
    /// not fired before) is parked at its database call.
    pub async fn release_task(&mut self, id: u64) {
        let Some(rec) = blocking::release_and_wait(id) else {
            // released, and 15 s of real time later still computing: for the sizes used here
            // (<= 5 statements) that is a computation that never ends
            self.hung_task = Some(id);
            return;
        };
        if rec.panicked {
            // the panic hook reports the end of the closure before the pool thread has finished
            // unwinding (dropping the closure's guards): settle until the task has left the set
            // of running tasks, giving up after 2 s of real time — the verdict itself is the
            // content of a later response, so it is the same on every replay
            // The cap is counted in polls (each one sleeps and so hands the processor to the
            // pool thread), not in elapsed time: a stall of the whole machine (seen once: two
            // shards of one batch reported this verdict at the same moment and neither replayed)
            // must not end the wait before the unwinding thread had a chance to run.
            let mut polls = 0u32;
            loop {
                let still = self.app_data.currently_running.lock().map(|g| g.iter().any(|r| r.username == rec.username && r.adf_name == rec.adf_name && format!("{:?}", r.task) == rec.task)).unwrap_or(false);
                polls += 1;
                if !still || polls > 20_000 {
                    break;
                }
                std::thread::sleep(Duration::from_micros(100));
            }
        }
        let t = self.tasks.get_mut(&id).unwrap();
        t.released = true;
        t.ended = true;
        t.panicked = rec.panicked;
        if t.cont == Cont::NotYet && !t.timed_out {
            self.expected.push_back(id);
            self.settle_expected().await;
        } else {
            pump().await;
        }
    }

    /// Move the paused clock. Deadlines that pass fire in order; their continuations reach the
    /// database in that order.
    pub async fn advance(&mut self, ms: u64) {
        self.now_ms += ms;
        let mut firing: Vec<(u64, u64)> = self
            .tasks
            .values()
            .filter(|t| t.cont == Cont::NotYet && !t.timed_out && !t.ended && t.deadline_ms <= self.now_ms)
            .map(|t| (t.deadline_ms, t.id))
            .collect();
        firing.sort();
        for (_, id) in &firing {
            self.tasks.get_mut(id).unwrap().timed_out = true;
            self.expected.push_back(*id);
        }
        tokio::time::advance(Duration::from_millis(ms)).await;
        if firing.is_empty() {
            pump().await;
        } else {
            self.settle_expected().await;
        }
    }

    /// Crash and restart of the server process; only the store survives. In-flight requests
    /// are gone with their connections, database calls of the dead incarnation execute nothing
    /// (the shim fails them at once), its worker threads run to their end against the dead
    /// incarnation's state, and a new incarnation (fresh `AppState`, fresh session key, same
    /// wiring) is assembled on the same store.
    pub async fn restart(&mut self, seed: u64) {
        for f in self.inflight.drain(..) {
            f.handle.abort();
        }
        let next_client = self.db.sim_next_incarnation();
        mongodb::sim::set_live_epoch(next_client.sim_epoch());
        pump().await;
        for t in blocking::parked() {
            if self.tasks.contains_key(&t.id) && blocking::release_and_wait(t.id).is_none() {
                self.hung_task = Some(t.id);
                return;
            }
        }
        self.expected.clear();
        for t in self.tasks.values_mut() {
            if !t.ended || t.cont != Cont::Done {
                t.died = true;
            }
            t.released = true;
            t.ended = true;
            t.cont = Cont::Done;
        }
        for _ in 0..4 {
            pump().await;
            std::thread::sleep(Duration::from_micros(200));
        }
        self.incarnation += 1;
        self.db = next_client;
        let mut kb = [0u8; 64];
        let mut r = simcore::Rng::new(seed ^ 0x5e55_10_4b ^ ((self.incarnation as u64) << 40));
        for c in kb.chunks_mut(8) {
            c.copy_from_slice(&r.next_u64().to_le_bytes());
        }
        self.key = Key::from(&kb);
        mongodb::sim::set_auto(true);
        crate::user::create_username_index(&self.db).await;
        self.app_data = new_app_state(self.db.clone());
        self.svc = build_service(self.app_data.clone(), self.key.clone()).await;
        mongodb::sim::set_auto(false);
        mongodb::sim::take_events();
    }

    /// The client disconnects: its request in flight is dropped wherever its handler is
    /// suspended (a database call not yet released is never executed).
    pub async fn drop_request(&mut self, client: usize) {
        let mut i = 0;
        while i < self.inflight.len() {
            if self.inflight[i].client == client {
                let f = self.inflight.remove(i);
                f.handle.abort();
            } else {
                i += 1;
            }
        }
        pump().await;
    }

    pub fn running_set(&self) -> Vec<(String, String, String)> {
        let g = self.app_data.currently_running.lock().unwrap();
        let mut v: Vec<_> = g.iter().map(|r| (r.username.clone(), r.adf_name.clone(), format!("{:?}", r.task))).collect();
        v.sort();
        v
    }

    /// Release whatever is still parked so that the runtime can shut down.
    pub async fn teardown(&mut self) {
        mongodb::sim::set_auto(true);
        // complete every parked database call with a failure: the world is over
        for g in mongodb::sim::pending() {
            mongodb::sim::release(g.id, Outcome::FaultBefore, "teardown");
        }
        if self.hung_task.is_some() {
            return;
        }
        if !blocking::release_all_and_wait() {
            self.hung_task = Some(0);
            return;
        }
        for _ in 0..5 {
            pump().await;
            for g in mongodb::sim::pending() {
                mongodb::sim::release(g.id, Outcome::FaultBefore, "teardown");
            }
            std::thread::sleep(Duration::from_micros(200));
        }
    }
}

async fn read_response(resp: crate::BoxedResp) -> Resp {
    let status = resp.status().as_u16();
    let mut cookie = None;
    for h in resp.headers().get_all(actix_web::http::header::SET_COOKIE) {
        if let Ok(s) = h.to_str() {
            if let Ok(c) = actix_web::cookie::Cookie::parse(s.to_string()) {
                if c.name() == COOKIE_NAME {
                    let removed = c.value().is_empty() || c.max_age().map(|m| m.whole_seconds() <= 0).unwrap_or(false);
                    cookie = Some(if removed { None } else { Some(c.value().to_string()) });
                }
            }
        }
    }
    let body = actix_web::body::to_bytes(resp.into_body()).await.map(|b| String::from_utf8_lossy(&b).to_string()).unwrap_or_default();
    Resp { status, body, cookie }
}

// ---- request builders -------------------------------------------------------------------

pub fn req_json(method: &str, path: &str, cookie: &Option<String>, body: Option<serde_json::Value>) -> actix_http::Request {
    let mut r = match method {
        "GET" => actix_web::test::TestRequest::get(),
        "POST" => actix_web::test::TestRequest::post(),
        "PUT" => actix_web::test::TestRequest::put(),
        "DELETE" => actix_web::test::TestRequest::delete(),
        _ => unreachable!(),
    }
    .uri(path);
    if let Some(c) = cookie {
        r = r.insert_header(("Cookie", format!("{COOKIE_NAME}={c}")));
    }
    if let Some(b) = body {
        r = r.set_json(b);
    }
    r.to_request()
}

pub fn req_add(cookie: &Option<String>, name: &str, code: &str, parsing: &str) -> actix_http::Request {
    let boundary = "----verifsimboundary7MA4YWxkTrZu0gW";
    let mut body = String::new();
    // "<strategy>+file": the code is uploaded as a file part instead of the text field
    let (parsing, as_file) = match parsing.strip_suffix("+file") {
        Some(p) => (p, true),
        None => (parsing, false),
    };
    for (k, v) in [("name", name), ("code", code), ("parsing", parsing)] {
        if k == "code" && as_file {
            body.push_str(&format!("--{boundary}\r\nContent-Disposition: form-data; name=\"file\"; filename=\"problem.adf\"\r\nContent-Type: text/plain\r\n\r\n{v}\r\n"));
            continue;
        }
        body.push_str(&format!("--{boundary}\r\nContent-Disposition: form-data; name=\"{k}\"\r\n\r\n{v}\r\n"));
    }
    body.push_str(&format!("--{boundary}--\r\n"));
    let mut r = actix_web::test::TestRequest::post()
        .uri("/adf/add")
        .insert_header(("Content-Type", format!("multipart/form-data; boundary={boundary}")));
    if let Some(c) = cookie {
        r = r.insert_header(("Cookie", format!("{COOKIE_NAME}={c}")));
    }
    r.set_payload(body).to_request()
}
