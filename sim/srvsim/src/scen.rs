//! Scenarios of the simulated service: scripts, the step loop, the oracles.
//!
//! One `Service` type serves three configurations:
//! * `isolation` (C17): 2-3 clients with disjoint account-name pools, strict per-client model;
//! * `contended` (C17): shared account-name pool (concurrent registration, rename onto a freed
//!   name, re-registration of a deleted name);
//! * `answers`   (C16): mostly one client; add / solve / get centred scripts, answers and graphs
//!   judged against the truth-table semantics.

use crate::blocking;
use crate::oracle16;
use crate::world::{req_add, req_json, Cont, Resp, World};
use mongodb::bson::Bson;
use mongodb::sim::{OpEvent, Outcome};
use refsem::AdfSpec;
use serde::{Deserialize, Serialize};
use simcore::batch::{RunResult, Scenario, Stats};
use simcore::report::Violation;
use simcore::{Decisions, Fnv, Rng};
use std::cell::RefCell;
use std::collections::{BTreeMap, BTreeSet};
use std::rc::Rc;

#[derive(Clone, Debug, Serialize, Deserialize, PartialEq, Eq, Hash)]
pub enum Code {
    Adf(AdfSpec),
    /// text that is not (meant to be) a well-formed ADF
    Raw(String),
}

impl Code {
    pub fn text(&self) -> String {
        match self {
            Code::Adf(s) => s.text(),
            Code::Raw(s) => s.clone(),
        }
    }
}

#[derive(Clone, Debug, Serialize, Deserialize, PartialEq, Eq, Hash)]
pub enum Rq {
    Register { name: String, pw: String },
    Login { name: String, pw: String },
    Logout,
    Info,
    Update { name: String, pw: String },
    DeleteAccount,
    Add { pname: String, code: Code, parsing: String },
    Solve { pname: String, strategy: String },
    Get { pname: String },
    List,
    Delete { pname: String },
    /// a request carrying a cookie that cannot be decrypted
    ForgedGet { pname: String },
    ForgedList,
}

#[derive(Clone, Debug, Serialize, Deserialize, PartialEq, Eq, Hash)]
pub struct SrvCase {
    pub clients: Vec<Vec<Rq>>,
    /// database faults enabled (FaultBefore / FaultAfter drawn per call)
    pub faults: bool,
    /// clock jumps past the compute deadline enabled
    pub jumps: bool,
    /// temporary names come from a space of three (collisions, exhaustion reachable)
    pub small_names: bool,
    /// crash + restart of the server process enabled (at most two per world)
    #[serde(default)]
    pub restarts: bool,
    /// scheduling bias: this client's handlers, once past their first database call, are rarely
    /// chosen, so that the others get whole requests done inside its windows between two calls
    #[serde(default)]
    pub stall: Option<usize>,
    /// client disconnects enabled (at most two per world): a request in flight is dropped while
    /// its handler is suspended at a database call - before the call is executed, or after it was
    /// executed but before the handler is resumed
    #[serde(default)]
    pub cancels: bool,
    /// clients 0 and 1 are two sessions (two cookie jars) of one user: same account names,
    /// same passwords, same problems
    #[serde(default)]
    pub shared_pair: bool,
}

pub struct Service {
    pub property: &'static str,
    pub name: &'static str,
}

pub const STRATEGIES: [&str; 6] = ["Ground", "Complete", "Stable", "StableCountingA", "StableCountingB", "StableNogood"];

fn marker(c: usize) -> String {
    format!("mk{c}x")
}

fn gen_code(rng: &mut Rng, c: usize, max_n: u64, allow_bad: bool) -> Code {
    if allow_bad && rng.chance(1, 7) {
        let m = marker(c);
        return Code::Raw(match rng.below(8) {
            0 => format!("s({m}a).ac({m}a,and({m}a)."),
            1 => format!("s({m}a)ac({m}a,c(v))."),
            2 | 3 => format!("s({m}a).ac({m}a,{m}b)."),
            4 => format!("s({m}a).ac({m}a,or({m}a,{m}a)). trailing"),
            // nothing but blank space: not a single fact, hence not an ADF
            5 => "  \n ".to_string(),
            6 => format!("s({m}a).ac({m}a,neg({m}a,{m}a))."),
            _ => format!("s({m}a).ac({m}a,c(x))."),
        });
    }
    let n = rng.range(1, max_n) as usize;
    let depth = rng.range(1, 2) as u32;
    let mut spec = AdfSpec::gen(rng, n, depth, &marker(c));
    if rng.chance(1, 4) {
        // labels that end like keywords or numbers (string-encoded numbers sort "10" < "2")
        let pool = ["and", "or", "neg", "c", "v", "f", "10", "2", "1", "0", "iff"];
        let mut used: Vec<String> = Vec::new();
        for i in 0..spec.names.len() {
            let mut cand = format!("{}{}", marker(c), pool[rng.below(pool.len() as u64) as usize]);
            while used.contains(&cand) {
                cand.push('q');
            }
            used.push(cand.clone());
            spec.names[i] = cand;
        }
    }
    Code::Adf(spec)
}

/// A code from a tiny pool shared by all clients (no client marker in it): two users then hold
/// byte-identical code under the same problem name, so a write keyed by (name, code) instead of
/// (name, owner) lands on the wrong user's document.
fn common_code(rng: &mut Rng) -> Code {
    use refsem::F;
    let names = vec!["cm0".to_string(), "cm1".to_string()];
    let acs = match rng.below(3) {
        0 => vec![F::Not(Box::new(F::Atom(1))), F::Not(Box::new(F::Atom(0)))],
        1 => vec![F::Top, F::Atom(0)],
        _ => vec![F::Atom(0), F::Or(Box::new(F::Atom(0)), Box::new(F::Atom(1)))],
    };
    Code::Adf(AdfSpec { names, acs, ac_order: vec![0, 1] })
}

/// One add in six sends its code as an uploaded file (`file` part of the multipart form)
/// instead of the `code` text field: the handler's other input path.
fn upload_some_as_file(rng: &mut Rng, clients: &mut [Vec<Rq>]) {
    for script in clients.iter_mut() {
        for rq in script.iter_mut() {
            if let Rq::Add { parsing, .. } = rq {
                if rng.chance(1, 6) {
                    parsing.push_str("+file");
                }
            }
        }
    }
}

impl Service {
    fn gen_c17(&self, rng: &mut Rng, thorough: bool) -> SrvCase {
        let contended = self.name == "contended";
        let nclients = if rng.chance(1, 3) { 3 } else { 2 };
        let faults = rng.chance(1, 4);
        let jumps = rng.chance(1, 6);
        let small_names = rng.chance(1, 5);
        // a tiny shared pool (equal names under different owners are the norm); one world in six
        // uses names that need escaping in a URL path
        let pnames: [&str; 2] = if rng.chance(1, 6) { *rng.pick(&[["p 1", "pé"], ["p%41", "p.1"], ["a+b", "p1"]]) } else { ["p1", "p2"] };
        // "twin problems" worlds (one in six): every client files the same marker-free code under
        // the same problem name early on and keeps working on it, so that documents of different
        // owners agree in everything but the owner
        let churn = contended && rng.chance(1, 4);
        let twin = rng.chance(1, 6);
        let twin_code = common_code(rng);
        let twin_p: String = pnames[rng.below(2) as usize].into();
        let mut clients = Vec::new();
        for c in 0..nclients {
            // occasionally names that differ only by a trailing blank or by case: distinct
            // accounts as far as the service is concerned
            let variant = |rng: &mut Rng, base: String| -> String {
                match rng.below(16) {
                    0 => format!("{base} "),
                    1 => base.to_uppercase(),
                    2 => format!("{base}é"),
                    3 => format!("{base}.x$y"),
                    _ => base,
                }
            };
            let acct = |rng: &mut Rng| -> String {
                let base = if contended {
                    ["ua", "ub"][rng.below(2) as usize].to_string()
                } else {
                    format!("c{c}{}", ["a", "b"][rng.below(2) as usize])
                };
                variant(rng, base)
            };
            let other_acct = |rng: &mut Rng| -> String {
                let base = if contended {
                    ["ua", "ub"][rng.below(2) as usize].to_string()
                } else {
                    let o = (c + 1 + rng.below(nclients as u64 - 1) as usize) % nclients;
                    format!("c{o}{}", ["a", "b"][rng.below(2) as usize])
                };
                variant(rng, base)
            };
            let pw = |rng: &mut Rng| match rng.below(12) {
                0 => format!("pw{c}xé{}", rng.below(2)),
                // longer than any truncating hash input (bcrypt's 72 bytes ...), two of them with
                // a common 84-byte prefix
                1 => format!("pw{c}x{}{}", "long".repeat(20), rng.below(2)),
                _ => format!("pw{c}x{}", rng.below(2)),
            };
            let len = rng.range(3, if thorough { 12 } else { 9 }) as usize;
            let mut script = Vec::new();
            // most scripts start by obtaining an account
            match rng.below(6) {
                0 => {}
                1 => script.push(Rq::Add { pname: pnames[rng.below(2) as usize].into(), code: gen_code(rng, c, 3, false), parsing: "Naive".into() }),
                _ => {
                    let n = acct(rng);
                    let p = pw(rng);
                    script.push(Rq::Register { name: n.clone(), pw: p.clone() });
                    script.push(Rq::Login { name: n, pw: p });
                }
            }
            if twin {
                script.push(Rq::Add { pname: twin_p.clone(), code: twin_code.clone(), parsing: "Naive".into() });
            }
            let len = if twin { len + 2 } else { len };
            while script.len() < len {
                if twin && rng.chance(1, 3) {
                    script.push(match rng.below(6) {
                        0 => Rq::Add { pname: twin_p.clone(), code: twin_code.clone(), parsing: "Naive".into() },
                        1 => Rq::Delete { pname: twin_p.clone() },
                        2 => Rq::Get { pname: twin_p.clone() },
                        _ => Rq::Solve { pname: twin_p.clone(), strategy: STRATEGIES[rng.below(6) as usize].into() },
                    });
                    continue;
                }
                let r = match rng.below(24) {
                    0 => Rq::Register { name: acct(rng), pw: pw(rng) },
                    1 | 2 => Rq::Login { name: acct(rng), pw: pw(rng) },
                    3 => {
                        if rng.chance(1, 2) {
                            // somebody else's (or nobody's) temporary account name: log in as it,
                            // or try to register it
                            let k = rng.below(3);
                            let name = if small_names { format!("tmp-{k}") } else { format!("tmp-{:04}", k + 1) };
                            // (registering is an account-name collision: contended configuration only)
                            if !contended || rng.chance(1, 2) {
                                Rq::Login { name, pw: pw(rng) }
                            } else {
                                Rq::Register { name, pw: pw(rng) }
                            }
                        } else {
                            Rq::Login { name: other_acct(rng), pw: pw(rng) }
                        }
                    }
                    4 => Rq::Logout,
                    5 => Rq::Info,
                    6 | 7 => Rq::Update { name: acct(rng), pw: pw(rng) },
                    8 => Rq::DeleteAccount,
                    9 if contended && rng.chance(1, 2) => {
                        if rng.chance(1, 2) {
                            Rq::DeleteAccount
                        } else {
                            Rq::Register { name: acct(rng), pw: pw(rng) }
                        }
                    }
                    9..=12 => Rq::Add {
                        pname: if rng.chance(1, 6) { String::new() } else { pnames[rng.below(2) as usize].into() },
                        code: if rng.chance(1, 4) { common_code(rng) } else { gen_code(rng, c, 3, true) },
                        parsing: if rng.chance(1, 2) { "Naive".into() } else { "Hybrid".into() },
                    },
                    13 | 14 => Rq::Solve { pname: pnames[rng.below(2) as usize].into(), strategy: STRATEGIES[rng.below(6) as usize].into() },
                    15..=18 => Rq::Get { pname: pnames[rng.below(2) as usize].into() },
                    19 | 20 => Rq::List,
                    21 => Rq::Delete { pname: pnames[rng.below(2) as usize].into() },
                    22 => Rq::ForgedGet { pname: pnames[rng.below(2) as usize].into() },
                    _ => Rq::ForgedList,
                };
                script.push(r);
            }
            if contended && churn {
                // account churn: register / log in / file a problem / look / delete the account,
                // over and over on the two shared names
                script.clear();
                let cycles = rng.range(2, 3);
                for _ in 0..cycles {
                    let n = acct(rng);
                    let p = pw(rng);
                    script.push(Rq::Register { name: n.clone(), pw: p.clone() });
                    script.push(Rq::Login { name: n, pw: p });
                    if rng.chance(3, 4) {
                        script.push(Rq::Add { pname: pnames[rng.below(2) as usize].into(), code: gen_code(rng, c, 3, true), parsing: "Naive".into() });
                    }
                    match rng.below(4) {
                        0 => script.push(Rq::List),
                        1 => script.push(Rq::Get { pname: pnames[rng.below(2) as usize].into() }),
                        2 => script.push(Rq::Update { name: acct(rng), pw: pw(rng) }),
                        _ => {}
                    }
                    if rng.chance(4, 5) {
                        script.push(Rq::DeleteAccount);
                    }
                }
                script.push(Rq::List);
            }
            if rng.chance(1, 10) {
                // a client that hammers somebody else's account with wrong passwords
                let target = if contended { ["ua", "ub"][rng.below(2) as usize].to_string() } else { format!("c{}a", (c + 1) % nclients) };
                let k = rng.range(5, 7) as usize;
                let mut hammer: Vec<Rq> = (0..k).map(|_| Rq::Login { name: target.clone(), pw: format!("pw{c}x{}", rng.below(2)) }).collect();
                hammer.extend(script.into_iter().take(3));
                script = hammer;
            } else if rng.chance(1, 6) {
                // log out and in again late in the script (with the password set last)
                let last = script.iter().rev().find_map(|r| match r {
                    Rq::Register { name, pw } | Rq::Update { name, pw } | Rq::Login { name, pw } => Some((name.clone(), pw.clone())),
                    _ => None,
                });
                if let Some((name, pw)) = last {
                    script.push(Rq::Logout);
                    script.push(Rq::Login { name, pw });
                    script.push(Rq::List);
                }
            }
            clients.push(script);
        }
        let stall = if rng.chance(1, 3) { Some(rng.below(nclients as u64) as usize) } else { None };
        let restarts = rng.chance(1, 5);
        // drawn last
        let cancels = rng.chance(1, 5);
        // drawn last: one user with two sessions (isolation configuration only, one world in
        // eight). Session 0 sets credentials, session 1 keeps logging in with them; what
        // session 1 sends otherwise is its own script rewritten to the user's names and marker
        let mut clients = clients;
        let mut shared_pair = false;
        let (mut faults, mut restarts, mut cancels) = (faults, restarts, cancels);
        if !contended && rng.chance(1, 8) {
            shared_pair = true;
            let (n0, n1) = ("c0a".to_string(), if rng.chance(1, 2) { "c0a".to_string() } else { "c0b".to_string() });
            let (p0, p1) = ("pw0x0".to_string(), "pw0x1".to_string());
            let filler = |rng: &mut Rng, out: &mut Vec<Rq>| {
                for _ in 0..rng.below(3) {
                    out.push(match rng.below(4) {
                        0 => Rq::List,
                        1 => Rq::Info,
                        2 => Rq::Add { pname: pnames[rng.below(2) as usize].into(), code: gen_code(rng, 0, 3, false), parsing: "Naive".into() },
                        _ => Rq::Get { pname: pnames[rng.below(2) as usize].into() },
                    });
                }
            };
            let mut s0 = vec![Rq::Register { name: n0.clone(), pw: p0.clone() }, Rq::Login { name: n0.clone(), pw: p0.clone() }];
            filler(rng, &mut s0);
            s0.push(Rq::Update { name: n1.clone(), pw: p1.clone() });
            filler(rng, &mut s0);
            s0.push(Rq::Logout);
            s0.push(Rq::Login { name: n1.clone(), pw: if rng.chance(1, 4) { p0.clone() } else { p1.clone() } });
            s0.push(Rq::List);
            let mut s1 = Vec::new();
            for _ in 0..rng.range(2, 4) {
                s1.push(Rq::Login { name: if rng.chance(1, 4) { n1.clone() } else { n0.clone() }, pw: if rng.chance(1, 5) { p1.clone() } else { p0.clone() } });
                filler(rng, &mut s1);
                if rng.chance(1, 2) {
                    s1.push(Rq::Logout);
                }
            }
            s1.push(Rq::Login { name: n1.clone(), pw: p1.clone() });
            s1.push(Rq::List);
            clients[0] = s0;
            clients[1] = s1;
            faults = false;
            restarts = false;
            cancels = false;
        }
        upload_some_as_file(rng, &mut clients);
        SrvCase { clients, faults, jumps, small_names, restarts, stall, cancels, shared_pair }
    }

    /// More than ten statements (string-encoded positions "10", "11" sort before "2"): only
    /// the parse result and the grounded strategy are judged for these (the brute-force oracle
    /// for complete / stable is exponential in n).
    fn big_code(rng: &mut Rng, c: usize) -> Code {
        use refsem::F;
        let n = rng.range(11, 12) as usize;
        let names: Vec<String> = (0..n).map(|i| format!("{}{}", marker(c), i)).collect();
        let acs = (0..n)
            .map(|_| {
                let a = F::Atom(rng.below(n as u64) as usize);
                let b = F::Atom(rng.below(n as u64) as usize);
                match rng.below(6) {
                    0 => F::Top,
                    1 => F::Bot,
                    2 => F::Not(Box::new(a)),
                    3 => F::And(Box::new(a), Box::new(b)),
                    4 => F::Or(Box::new(a), Box::new(F::Not(Box::new(b)))),
                    _ => a,
                }
            })
            .collect();
        Code::Adf(AdfSpec { names, acs, ac_order: (0..n).collect() })
    }

    fn gen_c16(&self, rng: &mut Rng, thorough: bool) -> SrvCase {
        let faults = rng.chance(1, 5);
        let jumps = rng.chance(1, 4);
        let mut clients = Vec::new();
        let nclients = if rng.chance(1, 4) { 2 } else { 1 };
        for c in 0..nclients {
            let mut script = Vec::new();
            if rng.chance(2, 3) {
                script.push(Rq::Register { name: format!("c{c}a"), pw: format!("pw{c}x0") });
                script.push(Rq::Login { name: format!("c{c}a"), pw: format!("pw{c}x0") });
            }
            // a tiny shared pool (equal names under different owners are the norm); one world in six
        // uses names that need escaping in a URL path
        let pnames: [&str; 2] = if rng.chance(1, 6) { *rng.pick(&[["p 1", "pé"], ["p%41", "p.1"], ["a+b", "p1"]]) } else { ["p1", "p2"] };
            let len = rng.range(4, if thorough { 16 } else { 12 }) as usize;
            let first = pnames[rng.below(2) as usize];
            let big = rng.chance(1, 12);
            script.push(Rq::Add {
                pname: first.into(),
                code: if big { Self::big_code(rng, c) } else { gen_code(rng, c, if thorough { 5 } else { 4 }, true) },
                parsing: if rng.chance(1, 2) { "Naive".into() } else { "Hybrid".into() },
            });
            if big {
                script.push(Rq::Solve { pname: first.into(), strategy: "Ground".into() });
            }
            while script.len() < len {
                let pn = if rng.chance(3, 4) { first } else { pnames[rng.below(2) as usize] };
                let r = match rng.below(16) {
                    0 | 1 => Rq::Add {
                        pname: pn.into(),
                        code: gen_code(rng, c, if thorough { 5 } else { 4 }, true),
                        parsing: if rng.chance(1, 2) { "Naive".into() } else { "Hybrid".into() },
                    },
                    2..=7 => Rq::Solve { pname: pn.into(), strategy: STRATEGIES[rng.below(6) as usize].into() },
                    8..=12 => Rq::Get { pname: pn.into() },
                    13 => Rq::List,
                    14 => Rq::Delete { pname: pn.into() },
                    _ => Rq::Get { pname: pn.into() },
                };
                script.push(r);
            }
            clients.push(script);
        }
        let stall = if rng.chance(1, 4) { Some(rng.below(nclients as u64) as usize) } else { None };
        let restarts = rng.chance(1, 5);
        // drawn last (every other draw is what it was before this existed): one world in four
        // has a client change its account name / password - or, for a temporary user, register -
        // somewhere after its first add, possibly while a task of its is in flight
        let mut clients = clients;
        if rng.chance(1, 4) {
            let c = rng.below(nclients as u64) as usize;
            let first_add = clients[c].iter().position(|r| matches!(r, Rq::Add { .. })).unwrap_or(0);
            let at = rng.range(first_add as u64 + 1, clients[c].len() as u64) as usize;
            let name = format!("c{c}{}", ["a", "b"][rng.below(2) as usize]);
            clients[c].insert(at, Rq::Update { name, pw: format!("pw{c}x{}", rng.below(2)) });
        }
        // drawn last
        let cancels = rng.chance(1, 6);
        // drawn last: some codes are uploaded as a file part instead of the text field
        let mut clients = clients;
        upload_some_as_file(rng, &mut clients);
        SrvCase { clients, faults, jumps, small_names: false, restarts, stall, cancels, shared_pair: false }
    }
}

// ------------------------------------------------------------------------------------------
// per-client bookkeeping
// ------------------------------------------------------------------------------------------
#[derive(Default)]
pub struct ClientSt {
    pub jar: Option<String>,
    pub pos: usize,
    pub busy: bool,
    /// the account this client believes it is logged into
    pub acct: Option<String>,
    /// strict model (isolation configuration): account -> problem name -> code
    pub model: BTreeMap<String, BTreeMap<String, String>>,
    /// model is exact (no fault hit one of this client's calls so far)
    pub exact: bool,
    /// the cookie in the jar was issued by the incarnation that is alive
    pub cookie_valid: bool,
    /// credentials of the last acknowledged login, to log in again after a restart
    pub creds: Option<(String, String)>,
    pub relogin_pending: bool,
    /// a request of this client that changes or deletes its account was dropped half way
    /// (client disconnect): what account it holds is no longer known to it
    pub account_change_cancelled: bool,
    /// the request in flight (scripted, or the synthetic re-login)
    pub current: Option<Rq>,
}

#[derive(Clone, Debug)]
pub struct Submitted {
    pub client: usize,
    pub req_no: usize,
    pub pname: String,
    pub code: Code,
    pub parsing: String,
    pub doc_id: Option<u64>,
}

pub struct Run<'a> {
    pub svc_cfg: &'a Service,
    pub case: &'a SrvCase,
    pub w: World,
    pub cl: Vec<ClientSt>,
    pub dec: Rc<RefCell<Decisions>>,
    pub stats: Stats,
    pub log: Fnv,
    pub violation: Option<Violation>,
    pub known: Vec<Violation>,
    /// password hash string -> plaintext that produced it
    pub hash_plain: BTreeMap<String, String>,
    pub plaintexts: BTreeSet<String>,
    /// per in-flight login: what the database call found
    /// tag -> None (no account found) | Some(None) (temporary account) | Some(Some(hash))
    pub login_found: BTreeMap<String, Option<Option<String>>>,
    /// tag -> user name of the account document the login's lookup returned
    pub login_found_name: BTreeMap<String, String>,
    /// account names registered by someone else while a rename away from them was half done
    pub tainted_names: BTreeSet<String>,
    /// names whose account went away (or was renamed) by a call whose acknowledgement was lost,
    /// while the issuing client still holds a session for the name: (client, name)
    pub orphan_sessions: Vec<(usize, String)>,
    /// such names that somebody else then registered: isolation verdicts about them are relaxed
    pub relaxed_names: BTreeSet<String>,
    /// open rename windows: (client, old name, new name)
    pub windows: Vec<(usize, String, String)>,
    /// every acknowledged add: which code a stored problem document was created for
    pub submitted: Vec<Submitted>,
    /// tag -> users/adf insert events seen for that request
    pub inserted_by: BTreeMap<String, Vec<(String, u64, mongodb::bson::Document)>>,
    pub faults_hit_client: BTreeSet<usize>,
    pub concurrent_steps: u64,
    pub interleaved_handlers: u64,
    pub solves_acked: Vec<(usize, String, String, u64)>,
    pub o16: oracle16::State,
    /// schedule as (actor, action) records, for the solo re-execution (O5)
    pub had_restart: bool,
    pub had_cancel: bool,
    /// model of the credentials: account name -> password most recently set by an acknowledged
    /// register / update (isolation configuration: an account name belongs to one user)
    pub cred_model: BTreeMap<String, String>,
    /// two account-changing requests were in flight at once: acknowledgement order no longer
    /// tells which password was set last
    pub cred_model_tainted: bool,
    /// account-changing requests in flight
    pub acct_changes_inflight: u32,
    /// login requests in flight (tag) that overlapped an account-changing request
    pub login_overlapped: BTreeSet<String>,
    pub logins_inflight: BTreeSet<String>,
    pub actions: Vec<crate::solo::ActRec>,
    /// per client: (request ordinal, status, canonical body) of every scripted request
    pub obs: Vec<crate::solo::Obs>,
}

fn tag_client(tag: &str) -> Option<usize> {
    tag.strip_prefix('c')?.split('#').next()?.parse().ok()
}

fn doc_str(d: &mongodb::bson::Document, k: &str) -> Option<String> {
    match d.get(k) {
        Some(Bson::String(s)) => Some(s.clone()),
        _ => None,
    }
}

impl<'a> Run<'a> {
    fn viol(&mut self, v: Violation) {
        if self.violation.is_none() {
            self.violation = Some(v);
        }
    }

    /// Narrow relaxation under database faults: when the acknowledgement of an account deletion
    /// or rename was lost, the issuing client still holds a (stateless cookie) session for the
    /// old name; once somebody else registers that name the two are one principal as far as the
    /// service can tell. Isolation verdicts that involve such a name are not judged.
    fn relaxed(&self, names: &[&str]) -> bool {
        names.iter().any(|n| self.relaxed_names.contains(*n))
    }

    /// A violation seen by client `c`: if its account is one whose ownership got mixed up by a
    /// registration inside a rename window, the cause key says so.
    fn viol_client(&mut self, c: usize, v: Violation) {
        let acct = self.cl[c].acct.clone().unwrap_or_default();
        if self.relaxed(&[&acct]) {
            return;
        }
        let v = if (v.oracle.starts_with("O3") || v.oracle.starts_with("O1") || v.oracle.starts_with("O5")) && self.tainted_names.contains(&acct) {
            let k = format!("{}/user.rs:update_user/name-reuse-inside-rename-window", &v.oracle[..2]);
            v.with_key(k)
        } else {
            v
        };
        self.viol(v);
    }

    fn strict(&self, c: usize) -> bool {
        self.svc_cfg.name == "isolation" && !self.case.faults && self.cl[c].exact
    }

    /// which user a client (a session) belongs to
    fn principal(&self, c: usize) -> usize {
        if self.case.shared_pair && c == 1 {
            0
        } else {
            c
        }
    }

    fn build_request(&self, c: usize, rq: &Rq) -> actix_http::Request {
        build_request_with(&self.cl[c].jar, rq)
    }
}

pub fn build_request_with(jar: &Option<String>, rq: &Rq) -> actix_http::Request {
    {
        match rq {
            Rq::Register { name, pw } => req_json("POST", "/users/register", jar, Some(serde_json::json!({"username": name, "password": pw}))),
            Rq::Login { name, pw } => req_json("POST", "/users/login", jar, Some(serde_json::json!({"username": name, "password": pw}))),
            Rq::Logout => req_json("DELETE", "/users/logout", jar, None),
            Rq::Info => req_json("GET", "/users/info", jar, None),
            Rq::Update { name, pw } => req_json("PUT", "/users/update", jar, Some(serde_json::json!({"username": name, "password": pw}))),
            Rq::DeleteAccount => req_json("DELETE", "/users/delete", jar, None),
            Rq::Add { pname, code, parsing } => req_add(jar, pname, &code.text(), parsing),
            Rq::Solve { pname, strategy } => req_json("PUT", &format!("/adf/{}/solve", path_segment(pname)), jar, Some(serde_json::json!({"strategy": strategy}))),
            Rq::Get { pname } => req_json("GET", &format!("/adf/{}", path_segment(pname)), jar, None),
            Rq::List => req_json("GET", "/adf/", jar, None),
            Rq::Delete { pname } => req_json("DELETE", &format!("/adf/{}", path_segment(pname)), jar, None),
            Rq::ForgedGet { pname } => req_json("GET", &format!("/adf/{}", path_segment(pname)), &Some("Zm9yZ2VkLWNvb2tpZS12YWx1ZQ%3D%3D".into()), None),
            Rq::ForgedList => req_json("GET", "/adf/", &Some("Zm9yZ2VkLWNvb2tpZS12YWx1ZQ%3D%3D".into()), None),
        }
    }
}

impl<'a> Run<'a> {

    // ---- database events ---------------------------------------------------------------
    fn process_events(&mut self) {
        for ev in mongodb::sim::take_events() {
            if ev.actor == "dead-incarnation" {
                self.stats.inc("db_calls_of_dead_incarnation_failed");
                continue;
            }
            self.log.str(ev.op).str(&ev.coll).str(ev.outcome).u64(ev.touched.len() as u64).u64(ev.read.len() as u64);
            self.stats.inc(&format!("db_{}_{}", ev.op, ev.coll));
            if ev.outcome.starts_with("fault") {
                self.stats.inc(&format!("fault_db_{}_fired", ev.outcome.replace('-', "_")));
                if let Some(c) = tag_client(&ev.actor) {
                    self.faults_hit_client.insert(c);
                    self.cl[c].exact = false;
                }
            }
            let actor_client = tag_client(&ev.actor);
            let is_bg = ev.actor.ends_with("~bg");
            // remember what each request inserted
            if ev.op == "insert_one" {
                for t in &ev.touched {
                    if let Some(after) = &t.after {
                        self.inserted_by.entry(ev.actor.clone()).or_default().push((ev.coll.clone(), t.id, after.clone()));
                    }
                }
            }
            // hash -> plaintext, rename windows (users collection)
            if ev.coll == crate::config::USER_COLL {
                for t in &ev.touched {
                    if let Some(after) = &t.after {
                        if let (Some(h), Some(c)) = (doc_str(after, "password"), actor_client) {
                            if let Some(p) = self.current_plaintext(c) {
                                self.hash_plain.entry(h).or_insert(p);
                            }
                        }
                    }
                    if ev.outcome == "fault-after" && (ev.op == "delete_one" || ev.op == "replace_one") {
                        // executed, acknowledgement lost: the client keeps a session for a name
                        // whose account is gone / renamed
                        if let (Some(b), Some(c)) = (&t.before, actor_client) {
                            let old = doc_str(b, "username").unwrap_or_default();
                            let newn = t.after.as_ref().and_then(|a| doc_str(a, "username"));
                            if newn.as_deref() != Some(old.as_str()) {
                                self.orphan_sessions.push((c, old));
                                self.stats.inc("probe_session_outlives_account_after_lost_ack");
                            }
                        }
                    }
                    if ev.op == "replace_one" {
                        if let (Some(b), Some(a), Some(c)) = (&t.before, &t.after, actor_client) {
                            let (old, new) = (doc_str(b, "username").unwrap_or_default(), doc_str(a, "username").unwrap_or_default());
                            if old != new {
                                if self.tainted_names.contains(&old) {
                                    // the mixed-up ownership travels with the account
                                    self.tainted_names.insert(new.clone());
                                }
                                if self.relaxed_names.contains(&old) {
                                    // so does the relaxation for a name that is shared with a
                                    // session which outlived its account (lost acknowledgement):
                                    // the rename re-owns that session's problems too
                                    self.relaxed_names.insert(new.clone());
                                    self.stats.inc("relaxed_name_travels_with_rename");
                                }
                                self.windows.push((c, old, new));
                                self.stats.inc("rename_windows_opened");
                            }
                        }
                    }
                    // another client obtains a name: by registering it, by being handed it as a
                    // temporary name, or by renaming onto it
                    let obtains = ev.op == "insert_one"
                        || (ev.op == "replace_one" && t.before.as_ref().and_then(|b| doc_str(b, "username")) != t.after.as_ref().and_then(|a| doc_str(a, "username")));
                    if obtains {
                        if let (Some(a), Some(c)) = (&t.after, actor_client) {
                            let name = doc_str(a, "username").unwrap_or_default();
                            if self.orphan_sessions.iter().any(|(oc, on)| self.principal(*oc) != self.principal(c) && *on == name) {
                                self.relaxed_names.insert(name.clone());
                                self.stats.inc("relaxed_name_reused_under_stale_session_after_lost_ack");
                            }
                            let hit: Vec<String> = self.windows.iter().filter(|(wc, old, _)| self.principal(*wc) != self.principal(c) && *old == name).map(|(_, _, new)| new.clone()).collect();
                            if !hit.is_empty() {
                                // from now on problems filed under the old name belong to two
                                // accounts at once: the renaming one (new name) and the newcomer
                                self.tainted_names.insert(name);
                                for n in hit {
                                    self.tainted_names.insert(n);
                                }
                                self.stats.inc("probe_name_registered_inside_rename_window");
                            }
                        }
                    }
                }
                if ev.op == "find_one" && ev.outcome == "ok" {
                    // what a login found
                    if let Some(tag) = &ev.tag {
                        let found = ev.read.first().map(|(id, _)| {
                            mongodb::sim::dump(&self.w.db, crate::config::USER_COLL)
                                .into_iter()
                                .find(|(i, _, _)| i == id)
                                .and_then(|(_, _, d)| doc_str(&d, "password"))
                        });
                        self.login_found.insert(tag.clone(), found);
                        let uname = ev.read.first().and_then(|(id, _)| {
                            mongodb::sim::dump(&self.w.db, crate::config::USER_COLL).into_iter().find(|(i, _, _)| i == id).and_then(|(_, _, d)| doc_str(&d, "username"))
                        });
                        if let Some(u) = uname {
                            self.login_found_name.insert(tag.clone(), u);
                        }
                    }
                }
            }
            // the window closes when the second call of the rename has been executed; a failed
            // second call leaves the old name's problems behind for good (window stays open)
            if ev.coll == crate::config::ADF_COLL && ev.op == "update_many" && ev.outcome != "fault-before" {
                if let Some(c) = actor_client {
                    // exactly the window whose old name this call re-owns: an earlier rename of
                    // the same client whose second call never ran stays open for good
                    let moved = doc_str(&ev.filter, "username").unwrap_or_default();
                    self.windows.retain(|(wc, old, _)| !(*wc == c && *old == moved));
                }
            }
            // O2: no foreign write
            if let Some(ac) = actor_client {
                for t in &ev.touched {
                    if t.before.is_none() {
                        continue; // an insert creates, it does not modify foreign data
                    }
                    let owner = tag_client(&t.prov);
                    if owner.is_some() && owner.map(|o| self.principal(o)) != Some(self.principal(ac)) {
                        let uname = t.before.as_ref().and_then(|d| doc_str(d, "username")).unwrap_or_default();
                        let fuser = doc_str(&ev.filter, "username").unwrap_or_default();
                        let stale = is_bg && self.w.cont_gate.get(&ev.gate).and_then(|tid| self.w.tasks.get(tid)).map(|t| t.doc_id != Some(t_id(t, &ev))).unwrap_or(false);
                        // the pinned tree's filter is {name, username, code}: a late write can
                        // still land on another client's document if that client obtained the
                        // account name and filed a byte-identical problem under the same name
                        let full_filter_matches = ["name", "username", "code"].iter().all(|k| {
                            let f = doc_str(&ev.filter, k);
                            f.is_some() && f == t.before.as_ref().and_then(|d| doc_str(d, k))
                        });
                        let key = if stale && full_filter_matches {
                            "O2/adf.rs:continuation-update_one/identical-problem-refiled-under-reused-account-name".to_string()
                        } else if stale {
                            "O2/adf.rs:continuation-update_one/stale-task-after-name-reuse".to_string()
                        } else if self.tainted_names.contains(&uname) || self.tainted_names.contains(&fuser) {
                            "O2/user.rs:update_user/name-reuse-inside-rename-window".to_string()
                        } else {
                            format!("O2/{}:{}", ev.coll, ev.op)
                        };
                        if self.relaxed(&[&uname, &fuser]) {
                            continue;
                        }
                        let v = Violation::new("O2-foreign-write", ev.op, format!("{} ({}) {} on {} filter {} modified a document created by {} (doc {}, username {:?})", ev.actor, if is_bg { "background task" } else { "request" }, ev.op, ev.coll, ev.filter, t.prov, t.id, uname)).with_key(key);
                        self.viol(v);
                    }
                }
            }
            // stale continuation onto an own, newer problem (C16 cause key)
            if is_bg && ev.op == "update_one" {
                if let Some(task) = self.w.cont_gate.get(&ev.gate).and_then(|tid| self.w.tasks.get(tid)) {
                    for t in &ev.touched {
                        if task.doc_id.is_some() && task.doc_id != Some(t.id) {
                            self.stats.inc("probe_stale_continuation_wrote_other_document");
                            self.o16.stale_docs.insert(t.id);
                        }
                    }
                }
            }
            self.o16.on_event(&ev);
        }
    }

    fn current_plaintext(&self, c: usize) -> Option<String> {
        let pos = self.cl[c].pos;
        if pos == 0 {
            return None;
        }
        match &self.case.clients[c][pos - 1] {
            Rq::Register { pw, .. } | Rq::Update { pw, .. } => Some(pw.clone()),
            _ => None,
        }
    }

    // ---- responses ---------------------------------------------------------------------
    fn on_response(&mut self, c: usize, tag: &str, rq: &Rq, resp: &Resp) {
        self.cl[c].busy = false;
        if let Some(ck) = &resp.cookie {
            self.cl[c].jar = ck.clone();
            self.cl[c].cookie_valid = ck.is_some();
        }
        self.log.u64(c as u64).u64(resp.status as u64).str(&canonical_body(&resp.body));
        self.stats.inc(&format!("resp_{}", resp.status));
        let req_no_obs: usize = tag.trim_end_matches("+ck").split('#').nth(1).and_then(|x| x.trim_end_matches('r').parse().ok()).unwrap_or(0);
        self.obs[c].push(crate::solo::observe(req_no_obs, resp.status, &resp.body));
        let had_cookie = tag.contains("+ck");
        // O1: no foreign marker in any response
        for d in 0..self.cl.len() {
            if self.principal(d) != self.principal(c) && resp.body.contains(&marker(d)) {
                let acct = self.cl[c].acct.clone().unwrap_or_default();
                let stale = self.o16.response_touches_stale(&resp.body);
                let key = if self.tainted_names.contains(&acct) {
                    "O1/user.rs:update_user/name-reuse-inside-rename-window".to_string()
                } else if stale {
                    "O1/adf.rs:continuation-update_one/stale-task-after-name-reuse".to_string()
                } else {
                    "O1/foreign-data-in-response".to_string()
                };
                let v = Violation::new("O1-foreign-data", "response", format!("response to client {c} ({rq:?}, status {}) contains data labelled {} of client {d}: {}", resp.status, marker(d), clip(&resp.body))).with_key(key);
                if !self.relaxed(&[&acct]) {
                    self.viol(v);
                }
            }
        }
        // unauthenticated requests obtain no problem data
        let unauth = matches!(rq, Rq::ForgedGet { .. } | Rq::ForgedList) || (!had_cookie && matches!(rq, Rq::Get { .. } | Rq::List | Rq::Solve { .. } | Rq::Delete { .. }));
        if unauth && (resp.status == 200 || resp.body.contains("mk")) {
            let v = Violation::new("O4-unauthenticated", "problem-data", format!("client {c} without a valid session sent {rq:?} and got status {} body {}", resp.status, clip(&resp.body)));
            self.viol(v);
        }
        let ok = resp.status == 200;
        let strict = self.strict(c);
        if matches!(rq, Rq::Register { .. } | Rq::Update { .. } | Rq::DeleteAccount) {
            self.acct_changes_inflight = self.acct_changes_inflight.saturating_sub(1);
        }
        let login_overlapped = self.login_overlapped.remove(tag);
        self.logins_inflight.remove(tag);
        match rq {
            Rq::Register { name, pw } => {
                if ok {
                    self.cred_model.insert(name.clone(), pw.clone());
                }
            }
            Rq::Login { name, pw } => {
                // O4: the account looked up is the one named, byte for byte
                if let Some(found_name) = self.login_found_name.remove(tag) {
                    if found_name != *name && ok {
                        let v = Violation::new("O4-login", "looked-up-another-account", format!("client {c} logged in as {name:?} (acknowledged) but the credential checked was that of account {found_name:?}"));
                        self.viol(v);
                    }
                }
                // O4: acknowledged iff the stored credential was produced from this password
                if let Some(found) = self.login_found.remove(tag) {
                    let expect = match &found {
                        Some(Some(h)) => self.hash_plain.get(h).map(|p| p == pw),
                        Some(None) => Some(false), // temporary account
                        None => Some(false),       // no such account
                    };
                    if let Some(e) = expect {
                        if e != ok && resp.status != 500 {
                            let v = Violation::new("O4-login", if ok { "accepted-wrong-credential" } else { "rejected-right-credential" }, format!("client {c} login as {name:?} with {pw:?}: status {}, account lookup found {:?}, stored credential was set from {:?}", resp.status, found.as_ref().map(|x| x.is_some()), found.as_ref().and_then(|x| x.as_ref()).and_then(|h| self.hash_plain.get(h))));
                            self.viol(v);
                        }
                    }
                } else if ok {
                    let v = Violation::new("O4-login", "accepted-without-lookup", format!("client {c} login as {name:?} acknowledged although no account document was read"));
                    self.viol(v);
                }
                // O4, against the model: acknowledged iff the password is the one most recently
                // set for that account by an acknowledged register / update. Judged where the
                // model is exact: account names belong to one user (isolation configuration), no
                // fault, restart or disconnect, no two account changes in flight at once, and no
                // account change in flight while this login was
                if self.svc_cfg.name == "isolation" && !self.case.faults && !self.had_restart && !self.had_cancel && !self.cred_model_tainted && !login_overlapped && resp.status != 500 {
                    let expect = self.cred_model.get(name).map(|p| p == pw).unwrap_or(false);
                    self.stats.inc("logins_judged_against_credential_model");
                    if expect != ok {
                        let v = Violation::new("O4-login", if ok { "accepted-password-not-most-recently-set" } else { "rejected-most-recently-set-password" }, format!("client {c} login as {name:?} with {pw:?}: status {}; the password most recently set for that account by an acknowledged register/update is {:?}", resp.status, self.cred_model.get(name)));
                        self.viol(v);
                    }
                }
                if ok {
                    self.cl[c].acct = Some(name.clone());
                    self.cl[c].creds = Some((name.clone(), pw.clone()));
                    self.stats.inc("logins_acknowledged");
                }
            }
            Rq::Logout => {
                if ok {
                    self.cl[c].acct = None;
                    self.cl[c].creds = None;
                }
            }
            Rq::Info => {
                if resp.status == 404 {
                    self.cl[c].acct = None;
                }
                if ok && strict {
                    if let (Some(j), Some(a)) = (resp.json(), &self.cl[c].acct) {
                        if j["username"].as_str() != Some(a.as_str()) {
                            let v = Violation::new("O3-own-view", "wrong-account", format!("client {c} is {a:?} but /users/info says {}", clip(&resp.body)));
                            self.viol_client(c, v);
                        }
                    }
                }
            }
            Rq::Update { name, pw } => {
                if ok {
                    match self.cl[c].acct.clone() {
                        Some(old) => {
                            if old != *name {
                                self.cred_model.remove(&old);
                            }
                        }
                        // which account was changed is not known to the model
                        None => self.cred_model_tainted = true,
                    }
                    self.cred_model.insert(name.clone(), pw.clone());
                    self.cl[c].creds = Some((name.clone(), pw.clone()));
                    if let Some(old) = self.cl[c].acct.clone() {
                        if old != *name {
                            let m = self.cl[c].model.remove(&old).unwrap_or_default();
                            self.cl[c].model.insert(name.clone(), m);
                            self.stats.inc("renames_acknowledged");
                        }
                    }
                    self.cl[c].acct = Some(name.clone());
                }
            }
            Rq::DeleteAccount => {
                if ok {
                    match self.cl[c].acct.clone() {
                        Some(a) => {
                            self.cred_model.remove(&a);
                        }
                        None => self.cred_model_tainted = true,
                    }
                    if let Some(a) = self.cl[c].acct.take() {
                        self.cl[c].model.remove(&a);
                    }
                    self.cl[c].creds = None;
                    self.stats.inc("accounts_deleted");
                }
            }
            Rq::Add { pname, code, parsing } => {
                // the session a temporary user is given exists from the moment the handler logged
                // it in, whatever the request's final status (409 on the problem name, 500 on the
                // problem insert): learn the account from what the request inserted
                if matches!(resp.cookie, Some(Some(_))) {
                    let ins = self.inserted_by.get(tag).cloned().unwrap_or_default();
                    for (coll, _, d) in &ins {
                        if coll == crate::config::USER_COLL {
                            self.cl[c].acct = doc_str(d, "username");
                            self.stats.inc("temporary_accounts_created");
                            if !ok {
                                self.stats.inc("probe_temporary_session_from_refused_add");
                            }
                        }
                    }
                }
                if ok && parsing.ends_with("+file") {
                    self.stats.inc("adds_with_uploaded_file_acknowledged");
                }
                if ok {
                    // learn the problem name from what the request inserted
                    let ins = self.inserted_by.get(tag).cloned().unwrap_or_default();
                    let prob = ins.iter().find(|(coll, _, _)| coll == crate::config::ADF_COLL);
                    let (real_name, doc_id) = match prob {
                        Some((_, id, d)) => (doc_str(d, "name").unwrap_or_else(|| pname.clone()), Some(*id)),
                        None => (pname.clone(), None),
                    };
                    if let Some(a) = self.cl[c].acct.clone() {
                        self.cl[c].model.entry(a).or_default().insert(real_name.clone(), code.text());
                    }
                    let req_no = self.cl[c].pos - 1;
                    self.submitted.push(Submitted { client: c, req_no, pname: real_name.clone(), code: code.clone(), parsing: parsing.clone(), doc_id });
                    self.o16.on_add_acked(c, &real_name, code, doc_id);
                    match self.w.expect_task(c, req_no, doc_id) {
                        Some(_) => self.stats.inc("tasks_parse_started"),
                        None => self.w.harness_error = Some("acknowledged add did not start a parse closure".into()),
                    }
                } else if resp.status == 500 && resp.body.contains("Could not generate new name") {
                    self.stats.inc("probe_ten_name_candidates_exhausted");
                } else if resp.status == 409 {
                    self.stats.inc("probe_add_conflict");
                }
            }
            Rq::Solve { pname, strategy } => {
                if ok {
                    let req_no = self.cl[c].pos - 1;
                    let doc_id = self.o16.doc_of(c, pname);
                    match self.w.expect_task(c, req_no, doc_id) {
                        Some(tid) => {
                            self.stats.inc("tasks_solve_started");
                            self.solves_acked.push((c, pname.clone(), strategy.clone(), tid));
                        }
                        None => self.w.harness_error = Some("acknowledged solve did not start a solve closure".into()),
                    }
                } else if resp.status == 409 {
                    self.stats.inc("probe_solve_refused_already_running_or_solved");
                }
            }
            Rq::Get { pname } => {
                if had_cookie {
                    let acct = self.cl[c].acct.clone().unwrap_or_default();
                    let have = self.cl[c].model.get(&acct).and_then(|m| m.get(pname)).cloned();
                    if ok {
                        if path_segment(pname) != *pname {
                            self.stats.inc("probe_get_200_of_problem_name_needing_url_escape");
                        }
                        if let Some(j) = resp.json() {
                            let code = j["code"].as_str().unwrap_or("").to_string();
                            if j["name"].as_str() != Some(pname.as_str()) {
                                let v = Violation::new("O3-own-view", "wrong-problem", format!("client {c} get {pname:?}: answered with problem {}", j["name"]));
                                self.viol_client(c, v);
                            }
                            match &have {
                                Some(h) if *h == code => {}
                                Some(h) if strict => {
                                    let v = Violation::new("O3-own-view", "wrong-code", format!("client {c} get {pname}: code {code:?}, submitted {h:?}"));
                                    self.viol_client(c, v);
                                }
                                None if strict => {
                                    let v = Violation::new("O3-own-view", "ghost-problem", format!("client {c} ({acct}) get {pname}: got a problem it never added: {}", clip(&resp.body)));
                                    self.viol_client(c, v);
                                }
                                _ => {}
                            }
                            let tasks = self.w.tasks.clone();
                            if let Some(v) = foreign_running_task(c, &acct, pname, &j, &tasks, self.case.shared_pair) {
                                self.viol_client(c, v);
                            }
                            let exact = self.cl[c].exact && !self.case.faults;
                            if let Some(v) = self.o16.on_get(c, &acct, pname, &j, &tasks, self.svc_cfg.property == "C16", exact) {
                                self.viol(v);
                            }
                        }
                    } else if resp.status == 404 && strict && have.is_some() {
                        let v = Violation::new("O3-own-view", "own-problem-missing", format!("client {c} ({acct}) get {pname}: 404 although its add was acknowledged and nothing deleted it"));
                        self.viol_client(c, v);
                    }
                }
            }
            Rq::List => {
                if ok && had_cookie {
                    if let Some(j) = resp.json() {
                        let tasks = self.w.tasks.clone();
                        for p in j.as_array().cloned().unwrap_or_default() {
                            let pn = p["name"].as_str().unwrap_or("").to_string();
                            if let Some(v) = foreign_running_task(c, &self.cl[c].acct.clone().unwrap_or_default(), &pn, &p, &tasks, self.case.shared_pair) {
                                self.viol_client(c, v);
                            }
                        }
                    }
                }
                if ok && had_cookie && strict {
                    if let Some(j) = resp.json() {
                        let acct = self.cl[c].acct.clone().unwrap_or_default();
                        let want: BTreeMap<String, String> = self.cl[c].model.get(&acct).cloned().unwrap_or_default();
                        let got: BTreeMap<String, String> = j.as_array().map(|a| a.iter().map(|p| (p["name"].as_str().unwrap_or("").to_string(), p["code"].as_str().unwrap_or("").to_string())).collect()).unwrap_or_default();
                        if want != got {
                            let v = Violation::new("O3-own-view", "list-differs", format!("client {c} ({acct}) list: got {got:?}, own acknowledged problems {want:?}"));
                            self.viol_client(c, v);
                        }
                    }
                }
            }
            Rq::Delete { pname } => {
                if ok {
                    if let Some(a) = self.cl[c].acct.clone() {
                        if let Some(m) = self.cl[c].model.get_mut(&a) {
                            m.remove(pname);
                        }
                    }
                    self.o16.on_delete_acked(c, pname);
                }
            }
            Rq::ForgedGet { .. } | Rq::ForgedList => {}
        }
    }

    /// O4 on the stored state, after every step.
    fn check_credentials(&mut self) {
        let users = mongodb::sim::dump(&self.w.db, crate::config::USER_COLL);
        let mut seen: BTreeMap<String, u64> = BTreeMap::new();
        for (id, _, d) in &users {
            match d.get("password") {
                None | Some(Bson::Null) => {}
                Some(Bson::String(h)) => {
                    let phc_ok = h.starts_with("$argon2") && h.split('$').count() >= 5 && h.split('$').nth(4).map(|s| s.len() >= 8).unwrap_or(false);
                    if !phc_ok {
                        let v = Violation::new("O4-stored-credential", "not-a-salted-hash", format!("user document {id} stores password {h:?}"));
                        self.viol(v);
                    }
                    // a short password can occur inside a random base64 string by chance (seen once
                    // in 2*10^5 hashes): substring test for long plaintexts only, short ones must
                    // not be the stored string or one of its `$`-separated fields
                    if self.plaintexts.iter().any(|p| if p.len() >= 12 { h.contains(p.as_str()) } else { h == p || h.split('$').any(|f| f == p) }) {
                        let v = Violation::new("O4-stored-credential", "contains-plaintext", format!("user document {id} stores {h:?}"));
                        self.viol(v);
                    }
                    if let Some(other) = seen.insert(h.clone(), *id) {
                        let v = Violation::new("O4-stored-credential", "same-string-for-two-accounts", format!("user documents {other} and {id} hold the identical credential string"));
                        self.viol(v);
                    }
                }
                Some(x) => {
                    let v = Violation::new("O4-stored-credential", "not-a-salted-hash", format!("user document {id} stores password {x:?}"));
                    self.viol(v);
                }
            }
        }
    }
}

/// Non-interference on `running_tasks`: every task a client sees listed for one of its
/// problems must be a task one of its own requests started (lenient about which of the
/// client's accounts) that has not ended — never another client's task.
fn foreign_running_task(c: usize, acct: &str, pname: &str, j: &serde_json::Value, tasks: &BTreeMap<u64, crate::world::TaskMeta>, shared_pair: bool) -> Option<Violation> {
    let prin = |x: usize| if shared_pair && x == 1 { 0 } else { x };
    for r in j["running_tasks"].as_array()? {
        let name = match (r["type"].as_str(), r["content"].as_str()) {
            (Some("Parse"), _) => "Parse".to_string(),
            (Some("Solve"), Some(s)) => format!("Solve({s})"),
            _ => format!("{r}"),
        };
        let own = tasks.values().any(|t| prin(t.client) == prin(c) && t.adf_name == pname && t.task == name && !t.ended);
        let foreign: Vec<&crate::world::TaskMeta> = tasks.values().filter(|t| prin(t.client) != prin(c) && t.adf_name == pname && t.task == name && !t.ended).collect();
        if !own && !foreign.is_empty() {
            let v = Violation::new("O5-non-interference", "foreign-running-task", format!("client {c} ({acct}) sees task {name} listed as running for its problem {pname}, but only another client has such a task in flight (started under account {:?})", foreign.iter().map(|t| t.username.clone()).collect::<Vec<_>>()));
            // cause: the viewer now holds the very account name under which the other client
            // started the task (the account was deleted or renamed away while the task ran)
            if !acct.is_empty() && foreign.iter().any(|t| t.username == acct) {
                return Some(v.with_key("O5/config.rs:currently_running/task-of-former-holder-of-the-account-name".to_string()));
            }
            return Some(v);
        }
    }
    None
}

fn t_id(_t: &crate::world::TaskMeta, ev: &OpEvent) -> u64 {
    ev.touched.first().map(|t| t.id).unwrap_or(0)
}

/// A problem name as one percent-encoded path segment (the service decodes it again).
pub fn path_segment(name: &str) -> String {
    let mut out = String::new();
    for b in name.bytes() {
        if b.is_ascii_alphanumeric() || matches!(b, b'-' | b'.' | b'_' | b'~') {
            out.push(b as char);
        } else {
            out.push_str(&format!("%{b:02X}"));
        }
    }
    out
}

pub fn clip(s: &str) -> String {
    if s.len() > 300 && std::env::var("SRVSIM_TRACE").as_deref() != Ok("full") {
        format!("{}…", &s[..300])
    } else {
        s.to_string()
    }
}

/// Parsed-JSON rendering with sorted keys and `running_tasks` as a sorted set; plain text
/// bodies verbatim. Cookies and salts never get here.
pub fn canonical_body(body: &str) -> String {
    fn canon(v: &serde_json::Value, key: &str) -> serde_json::Value {
        match v {
            serde_json::Value::Object(m) => {
                let mut out = serde_json::Map::new();
                let mut keys: Vec<&String> = m.keys().collect();
                keys.sort();
                for k in keys {
                    out.insert(k.clone(), canon(&m[k], k));
                }
                serde_json::Value::Object(out)
            }
            serde_json::Value::Array(a) => {
                let mut items: Vec<serde_json::Value> = a.iter().map(|x| canon(x, "")).collect();
                if key == "running_tasks" {
                    items.sort_by_key(|x| x.to_string());
                }
                serde_json::Value::Array(items)
            }
            x => x.clone(),
        }
    }
    let text = match serde_json::from_str::<serde_json::Value>(body) {
        Ok(v) => canon(&v, "").to_string(),
        Err(_) => body.to_string(),
    };
    scrub_task_ids(&text)
}

/// tokio's JoinError prints a process-global task number ("task 37 panicked"): not part of
/// the service's behaviour, different on every execution.
pub fn scrub_task_ids(s: &str) -> String {
    let mut out = String::with_capacity(s.len());
    let mut rest = s;
    while let Some(p) = rest.find("task ") {
        out.push_str(&rest[..p + 5]);
        rest = &rest[p + 5..];
        let digits = rest.chars().take_while(|c| c.is_ascii_digit()).count();
        if digits > 0 && rest[digits..].starts_with(" panicked") {
            out.push('N');
            rest = &rest[digits..];
        }
    }
    out.push_str(rest);
    out
}

// ------------------------------------------------------------------------------------------
// the step loop
// ------------------------------------------------------------------------------------------
#[derive(Clone, Debug)]
enum Act {
    Gate(u64),
    Issue(usize),
    Release(u64),
    Jump,
    Restart,
    /// the client drops its request in flight (disconnect)
    Cancel(usize),
}

async fn run_world(svc_cfg: &Service, case: &SrvCase, dec: Decisions, seed_for_key: u64) -> RunResult {
    let dec = Rc::new(RefCell::new(dec));
    // temporary / generated names come from the decision source
    {
        let d = dec.clone();
        let small = case.small_names;
        let counter = std::cell::Cell::new(0u64);
        names::sim_install(Some(Box::new(move || {
            if small {
                format!("tmp-{}", d.borrow_mut().choose("name", 3))
            } else {
                counter.set(counter.get() + 1);
                format!("tmp-{:04}", counter.get())
            }
        })));
    }
    let w = World::new(seed_for_key).await;
    let n = case.clients.len();
    let mut run = Run {
        svc_cfg,
        case,
        w,
        cl: (0..n).map(|c| ClientSt { exact: !(case.shared_pair && c < 2), ..Default::default() }).collect(),
        dec: dec.clone(),
        stats: Stats::default(),
        log: Fnv::new(),
        violation: None,
        known: Vec::new(),
        hash_plain: BTreeMap::new(),
        plaintexts: BTreeSet::new(),
        login_found: BTreeMap::new(),
        login_found_name: BTreeMap::new(),
        tainted_names: BTreeSet::new(),
        orphan_sessions: Vec::new(),
        relaxed_names: BTreeSet::new(),
        windows: Vec::new(),
        submitted: Vec::new(),
        inserted_by: BTreeMap::new(),
        faults_hit_client: BTreeSet::new(),
        concurrent_steps: 0,
        interleaved_handlers: 0,
        solves_acked: Vec::new(),
        o16: oracle16::State::default(),
        had_restart: false,
        had_cancel: false,
        cred_model: BTreeMap::new(),
        cred_model_tainted: false,
        acct_changes_inflight: 0,
        login_overlapped: BTreeSet::new(),
        logins_inflight: BTreeSet::new(),
        actions: Vec::new(),
        obs: (0..n).map(|_| Vec::new()).collect(),
    };
    for s in &case.clients {
        for r in s {
            if let Rq::Add { code, .. } = r {
                run.o16.codes.insert(code.text(), code.clone());
            }
            if let Rq::Register { pw, .. } | Rq::Update { pw, .. } | Rq::Login { pw, .. } = r {
                run.plaintexts.insert(pw.clone());
            }
        }
    }
    let mut steps = 0u64;
    let mut restarts_done = 0u32;
    let mut cancels_done = 0u32;
    let trace = std::env::var("SRVSIM_TRACE").is_ok();
    let mut last_gate_client: Option<usize> = None;
    let mut calls_done: BTreeMap<String, u32> = BTreeMap::new();
    loop {
        if run.violation.is_some() || run.w.harness_error.is_some() || run.w.hung_task.is_some() {
            break;
        }
        steps += 1;
        if steps > 600 {
            run.w.harness_error = Some("step cap reached".into());
            break;
        }
        // enabled actions, in a fixed order (alternative 0 = oldest pending database call)
        let gates = run.w.pending_gates();
        let mut acts: Vec<(Act, u64)> = Vec::new();
        for g in &gates {
            let owner = match &g.tag {
                Some(t) => tag_client(t),
                None => run.w.cont_gate.get(&g.id).and_then(|tid| run.w.tasks.get(tid)).map(|t| t.client),
            };
            let mid_request = match &g.tag {
                Some(t) => calls_done.get(t).copied().unwrap_or(0) >= 1,
                None => true,
            };
            let stalled = case.stall.is_some() && owner == case.stall && mid_request;
            if stalled {
                run.stats.inc("stalled_call_offered");
            }
            acts.push((Act::Gate(g.id), if stalled { 1 } else { 4 }));
        }
        for c in 0..n {
            if !run.cl[c].busy && run.cl[c].pos < case.clients[c].len() {
                acts.push((Act::Issue(c), 4));
            }
        }
        for t in blocking::parked() {
            if run.w.tasks.contains_key(&t.id) {
                acts.push((Act::Release(t.id), 2));
            }
        }
        if case.jumps && run.w.tasks.values().any(|t| t.cont == Cont::NotYet && !t.timed_out && !t.ended) {
            acts.push((Act::Jump, 1));
        }
        if case.restarts && restarts_done < 2 && steps > 3 && !acts.is_empty() {
            acts.push((Act::Restart, 1));
        }
        if case.cancels && cancels_done < 2 {
            for c in 0..n {
                let parked = gates.iter().any(|g| g.tag.as_deref().map(|t| tag_client(t) == Some(c) && !t.contains("final")).unwrap_or(false));
                if run.cl[c].busy && parked && run.w.inflight.iter().any(|f| f.client == c) {
                    acts.push((Act::Cancel(c), 1));
                }
            }
        }
        if acts.is_empty() {
            break;
        }
        let total: u64 = acts.iter().map(|a| a.1).sum();
        let mut pick = dec.borrow_mut().choose("step", total);
        let mut chosen = acts[0].0.clone();
        for (a, wgt) in &acts {
            if pick < *wgt {
                chosen = a.clone();
                break;
            }
            pick -= wgt;
        }
        if run.cl.iter().filter(|c| c.busy).count() >= 2 {
            run.concurrent_steps += 1;
        }
        if trace {
            eprintln!("[t={}] step {steps}: {chosen:?} of {:?}", run.w.now_ms, acts.iter().map(|a| format!("{:?}", a.0)).collect::<Vec<_>>());
        }
        match chosen {
            Act::Gate(id) => {
                let g = gates.iter().find(|g| g.id == id).unwrap().clone();
                let actor = match &g.tag {
                    Some(t) => t.clone(),
                    None => match run.w.cont_gate.get(&id).and_then(|tid| run.w.tasks.get(tid)) {
                        Some(t) => format!("c{}#{}~bg", t.client, t.req_no),
                        None => "unknown~bg".into(),
                    },
                };
                let outcome = if case.faults {
                    match dec.borrow_mut().choose("fault", 16) {
                        14 => Outcome::FaultBefore,
                        15 => Outcome::FaultAfter,
                        _ => Outcome::Ok,
                    }
                } else {
                    Outcome::Ok
                };
                let gc = tag_client(&actor);
                if gc.is_some() && last_gate_client.is_some() && gc != last_gate_client && gates.iter().any(|x| x.tag.as_deref().and_then(tag_client) == last_gate_client) {
                    // another actor's call completes while the previous actor's handler is still parked
                    run.interleaved_handlers += 1;
                }
                last_gate_client = gc;
                {
                    let bg = if g.tag.is_none() {
                        run.w.cont_gate.get(&id).and_then(|tid| {
                            let cl = run.w.tasks.get(tid)?.client;
                            let mut mine: Vec<u64> = run.w.tasks.values().filter(|t| t.client == cl).map(|t| t.id).collect();
                            mine.sort();
                            mine.iter().position(|x| x == tid)
                        })
                    } else {
                        None
                    };
                    run.actions.push(crate::solo::ActRec { client: gc.unwrap_or(usize::MAX - 1), kind: crate::solo::ActKind::Gate { bg_task_ord: bg, outcome } });
                }
                run.log.str("gate").u64(id).u64(outcome as u64);
                *calls_done.entry(actor.clone()).or_default() += 1;
                run.w.release_gate(id, outcome, &actor).await;
            }
            Act::Issue(c) => {
                // after a restart a client that knows its credentials logs in again first
                let synthetic = run.cl[c].relogin_pending && run.cl[c].creds.is_some();
                let rq = if synthetic {
                    let (name, pw) = run.cl[c].creds.clone().unwrap();
                    run.cl[c].relogin_pending = false;
                    run.stats.inc("relogins_after_restart");
                    Rq::Login { name, pw }
                } else {
                    case.clients[c][run.cl[c].pos].clone()
                };
                let valid = run.cl[c].jar.is_some() && run.cl[c].cookie_valid;
                let tag = format!("c{c}#{}{}{}", if synthetic { format!("{}r", run.cl[c].pos) } else { run.cl[c].pos.to_string() }, if valid { "+ck" } else { "" }, "");
                let req = run.build_request(c, &rq);
                if !synthetic {
                    run.cl[c].pos += 1;
                }
                if matches!(rq, Rq::Register { .. } | Rq::Update { .. } | Rq::DeleteAccount) {
                    if run.acct_changes_inflight > 0 {
                        run.cred_model_tainted = true;
                    }
                    run.acct_changes_inflight += 1;
                    let l: Vec<String> = run.logins_inflight.iter().cloned().collect();
                    run.login_overlapped.extend(l);
                }
                if matches!(rq, Rq::Login { .. }) {
                    run.logins_inflight.insert(tag.clone());
                    if run.acct_changes_inflight > 0 {
                        run.login_overlapped.insert(tag.clone());
                    }
                }
                run.cl[c].current = Some(rq.clone());
                run.cl[c].busy = true;
                run.actions.push(crate::solo::ActRec { client: c, kind: crate::solo::ActKind::Issue });
                run.log.str("issue").u64(c as u64);
                run.w.now_ms += 1;
                tokio::time::advance(std::time::Duration::from_millis(1)).await;
                run.w.issue(c, tag, req);
                crate::world::pump().await;
                run.w.settle_request(c).await;
            }
            Act::Release(id) => {
                if let Some(t) = run.w.tasks.get(&id) {
                    let cl = t.client;
                    let mut mine: Vec<u64> = run.w.tasks.values().filter(|t| t.client == cl).map(|t| t.id).collect();
                    mine.sort();
                    let ord = mine.iter().position(|x| *x == id).unwrap_or(0);
                    run.actions.push(crate::solo::ActRec { client: cl, kind: crate::solo::ActKind::Release { task_ord: ord } });
                }
                run.log.str("release").u64(id);
                run.stats.inc("tasks_released");
                let before_deadline = run.w.tasks.get(&id).map(|t| !t.timed_out).unwrap_or(true);
                run.stats.inc(if before_deadline { "tasks_finished_before_deadline" } else { "tasks_finished_after_deadline" });
                run.w.release_task(id).await;
                if run.w.tasks.get(&id).map(|t| t.panicked).unwrap_or(false) {
                    run.stats.inc("probe_closure_panicked");
                }
            }
            Act::Restart => {
                restarts_done += 1;
                run.log.str("restart");
                run.stats.inc("fault_server_restart_fired");
                let lost: Vec<usize> = run.w.inflight.iter().map(|f| f.client).collect();
                let parked_now = blocking::parked().len() as u64;
                run.stats.add("tasks_in_flight_at_restart", parked_now);
                run.w.restart(seed_for_key).await;
                for c in 0..n {
                    if lost.contains(&c) {
                        run.cl[c].busy = false;
                        run.cl[c].exact = false;
                        run.cl[c].current = None;
                        run.stats.inc("requests_lost_in_restart");
                    }
                    run.cl[c].acct = None;
                    run.cl[c].cookie_valid = false;
                    run.cl[c].relogin_pending = run.cl[c].creds.is_some();
                }
                run.login_found.clear();
                run.had_restart = true;
                run.cred_model_tainted = true;
            }
            Act::Cancel(c) => {
                cancels_done += 1;
                run.had_cancel = true;
                run.cred_model_tainted = true;
                let g = gates.iter().find(|g| g.tag.as_deref().map(|t| tag_client(t) == Some(c) && !t.contains("final")).unwrap_or(false)).unwrap().clone();
                let tag = g.tag.clone().unwrap_or_default();
                let after = dec.borrow_mut().choose("cancel", 2) == 1;
                run.log.str("cancel").u64(c as u64).u64(after as u64);
                run.stats.inc(if after { "fault_client_disconnect_after_call_executed_fired" } else { "fault_client_disconnect_before_call_executed_fired" });
                run.stats.inc(&format!("disconnect_at_{}_{}", g.op, g.coll));
                if calls_done.get(&tag).copied().unwrap_or(0) >= 1 {
                    run.stats.inc("probe_disconnect_between_two_calls_of_a_handler");
                }
                let held_before = run.cl[c].acct.clone().filter(|h| run.windows.iter().any(|(wc, old, _)| *wc == c && old == h));
                if after {
                    // the call is executed; its caller is never resumed
                    *calls_done.entry(tag.clone()).or_default() += 1;
                    run.w.release_gate(g.id, Outcome::CancelAfter, &tag).await;
                }
                run.w.drop_request(c).await;
                run.process_events();
                let rq = run.cl[c].current.take();
                run.cl[c].busy = false;
                run.cl[c].exact = false;
                run.faults_hit_client.insert(c);
                if matches!(rq, Some(Rq::Update { .. }) | Some(Rq::DeleteAccount)) {
                    run.cl[c].account_change_cancelled = true;
                    run.stats.inc("probe_account_change_dropped_half_way");
                    // a rename whose first call was executed: the cookie the client keeps names
                    // an account that no longer exists under that name
                    if let Some(held) = run.cl[c].acct.clone() {
                        if (held_before.is_some() || run.windows.iter().any(|(wc, old, _)| *wc == c && *old == held)) && !run.orphan_sessions.contains(&(c, held.clone())) {
                            run.orphan_sessions.push((c, held));
                            run.stats.inc("probe_session_outlives_account_after_disconnect");
                        }
                    }
                }
            }
            Act::Jump => {
                run.actions.push(crate::solo::ActRec { client: usize::MAX, kind: crate::solo::ActKind::Jump });
                run.log.str("jump");
                run.stats.inc("fault_clock_jump_past_deadline_fired");
                run.w.advance(121_000).await;
                run.stats.add("simulated_ms", 121_000);
            }
        }
        // observe
        run.process_events();
        for (c, tag, resp) in run.w.take_completed() {
            let req_no: usize = tag.trim_end_matches("+ck").trim_end_matches('r').split('#').nth(1).and_then(|x| x.trim_end_matches('r').parse().ok()).unwrap_or(0);
            let rq = run.cl[c].current.take().unwrap_or_else(|| case.clients[c][req_no.min(case.clients[c].len().saturating_sub(1))].clone());
            if trace {
                eprintln!("    <- {tag} {rq:?}: {} {}", resp.status, clip(&resp.body));
            }
            run.on_response(c, &tag, &rq, &resp);
            if trace {
                for t in run.w.tasks.values() {
                    eprintln!("       task {} c{} {} {} doc {:?} deadline {} released {} ended {} timed_out {} cont {:?}", t.id, t.client, t.adf_name, t.task, t.doc_id, t.deadline_ms, t.released, t.ended, t.timed_out, t.cont);
                }
            }
        }
        run.check_credentials();
    }
    // ---- quiescent end: everything released and completed --------------------------------
    if run.violation.is_none() && run.w.harness_error.is_none() && run.w.hung_task.is_none() {
        final_phase(&mut run).await;
    }
    run.stats.add("steps", steps);
    run.stats.add("db_calls_of_dead_incarnation_failed", mongodb::sim::dead_calls());
    run.stats.add("simulated_ms", run.w.now_ms);
    run.stats.add("steps_with_two_requests_in_flight", run.concurrent_steps);
    run.stats.add("handler_interleavings_between_db_calls", run.interleaved_handlers);
    run.w.teardown().await;
    names::sim_install(None);
    // O5: every client again, alone, under the projection of the same schedule
    if svc_cfg.name == "isolation" && !case.small_names && !run.had_restart && !run.had_cancel && !case.shared_pair && run.violation.is_none() && run.w.harness_error.is_none() && run.w.hung_task.is_none() && seed_for_key % 2 == 0 {
        for c in 0..n {
            if case.clients[c].is_empty() {
                continue;
            }
            run.stats.inc("o5_solo_reexecutions");
            let alone = crate::solo::solo(case, c, &run.actions, seed_for_key, &|jar, rq| build_request_with(jar, rq)).await;
            let shared = run.obs[c].clone();
            let v = match alone {
                Err(e) => Some(Violation::new("O5-non-interference", "different-database-calls", format!("client {c}: {e}"))),
                Ok(alone) => {
                    // whether *another* client's account name exists is the one thing a client
                    // may legitimately observe about the others (names are unique): a login
                    // attempt under a foreign name answers 400 with, 404 without that account
                    let foreign_name_probe = |req_no: usize| -> bool {
                        matches!(case.clients[c].get(req_no), Some(Rq::Login { name, .. }) if !name.starts_with(&format!("c{c}")))
                    };
                    let firstdiff = shared.iter().zip(alone.iter()).position(|(a, b)| a != b && !foreign_name_probe(a.0));
                    match firstdiff {
                        Some(i) => Some(Violation::new("O5-non-interference", "history-differs", format!("client {c} request #{} ({:?}): with the other clients present it saw status {} body {}, alone status {} body {}", shared[i].0, case.clients[c].get(shared[i].0), shared[i].1, clip(&shared[i].2), alone[i].1, clip(&alone[i].2)))),
                        None if shared.len() != alone.len() => Some(Violation::new("O5-non-interference", "history-length-differs", format!("client {c}: {} responses with the others present, {} alone", shared.len(), alone.len()))),
                        None => None,
                    }
                }
            };
            if let Some(v) = v {
                run.viol_client(c, v);
                break;
            }
        }
    }
    let nontrivial = match svc_cfg.property {
        "C17" => run.interleaved_handlers > 0 || run.concurrent_steps > 0,
        _ => run.w.tasks.len() > 0,
    };
    let harness_error = run.w.harness_error.clone();
    let mut violation = run.violation.clone();
    if let Some(e) = harness_error {
        violation = Some(Violation::new("harness", "error", e).with_key("harness/error".into()));
    }
    if let Some(tid) = run.w.hung_task {
        let what = run.w.tasks.get(&tid).map(|t| format!("{} of problem {} (client {})", t.task, t.adf_name, t.client)).unwrap_or_else(|| "a background task".into());
        violation = Some(Violation::new("E-liveness", "computation-never-ends", format!("{what} was released and is still computing after 15 s of real time")));
    }
    let d = dec.borrow();
    let mut sig = Fnv::new();
    sig.u64(d.signature()).u64(run.log.finish());
    RunResult {
        violation,
        decisions: d.values(),
        signature: sig.finish(),
        log_hash: run.log.finish(),
        nontrivial,
        stats: run.stats,
    }
}

/// After the last fault, with every closure released and every database call completed:
/// one more get per problem (bounded liveness, oracle E of C16; O1/O3 once more for C17).
async fn final_phase(run: &mut Run<'_>) {
    let n = run.cl.len();
    for c in 0..n {
        if run.cl[c].jar.is_none() || !run.cl[c].cookie_valid {
            continue;
        }
        let acct = run.cl[c].acct.clone().unwrap_or_default();
        let names: Vec<String> = {
            let mut v: BTreeSet<String> = run.cl[c].model.get(&acct).map(|m| m.keys().cloned().collect()).unwrap_or_default();
            // plus every problem name any script of this world mentions (the shared pool)
            for script in &run.case.clients {
                for rq in script {
                    match rq {
                        Rq::Add { pname, .. } | Rq::Solve { pname, .. } | Rq::Get { pname } | Rq::Delete { pname } | Rq::ForgedGet { pname } if !pname.is_empty() => {
                            v.insert(pname.clone());
                        }
                        _ => {}
                    }
                }
            }
            if v.is_empty() {
                v.insert("p1".into());
            }
            v.into_iter().collect()
        };
        for pname in names {
            let rq = Rq::Get { pname: pname.clone() };
            let tag = format!("c{c}#final+ck");
            let req = run.build_request(c, &rq);
            run.w.issue(c, tag.clone(), req);
            crate::world::pump().await;
            // complete its database calls in order, fault-free
            let mut guard = 0;
            while run.w.inflight.iter().any(|f| f.slot.borrow().is_none()) && guard < 20 {
                guard += 1;
                for g in run.w.pending_gates() {
                    let actor = g.tag.clone().unwrap_or_else(|| "final".into());
                    run.w.release_gate(g.id, Outcome::Ok, &actor).await;
                }
            }
            run.process_events();
            for (cc, _tag, resp) in run.w.take_completed() {
                run.cl[cc].busy = false;
                run.log.u64(cc as u64).u64(resp.status as u64).str(&canonical_body(&resp.body));
                // O1 again
                for d in 0..n {
                    if run.principal(d) != run.principal(cc) && resp.body.contains(&marker(d)) {
                        let stale = run.o16.response_touches_stale(&resp.body);
                        let key = if run.tainted_names.contains(&acct) {
                            "O1/user.rs:update_user/name-reuse-inside-rename-window".to_string()
                        } else if stale {
                            "O1/adf.rs:continuation-update_one/stale-task-after-name-reuse".to_string()
                        } else {
                            "O1/foreign-data-in-response".to_string()
                        };
                        let v = Violation::new("O1-foreign-data", "response", format!("final get {pname} of client {cc} contains data labelled {} of client {d}: {}", marker(d), clip(&resp.body))).with_key(key);
                        if !run.relaxed(&[&acct]) {
                            run.viol(v);
                        }
                    }
                }
                if resp.status == 200 {
                    if let Some(j) = resp.json() {
                        let tasks = run.w.tasks.clone();
                        let judge = run.svc_cfg.property == "C16";
                        let exact = run.cl[cc].exact && !run.case.faults;
                        if let Some(v) = run.o16.on_get(cc, &acct, &pname, &j, &tasks, judge, exact) {
                            run.viol(v);
                        }
                        if judge {
                            if let Some(v) = run.o16.final_liveness(cc, &acct, &pname, &j, &run.solves_acked, &tasks, run.case.faults || run.cl[cc].account_change_cancelled, exact) {
                                run.viol(v);
                            }
                        }
                    }
                }
            }
        }
    }
}

impl Scenario for Service {
    type Case = SrvCase;
    fn name(&self) -> &'static str {
        self.name
    }
    fn property(&self) -> &'static str {
        self.property
    }
    fn rule(&self) -> String {
        match self.name {
            "isolation" => "case = 2-3 client scripts (3-12 requests each over register/login/logout/info/update/delete-account/add/solve/get/list/delete + forged-cookie probes; disjoint account-name pools, shared problem-name pool, every code labelled with its client's marker) + flags (database faults, clock jumps, tiny temporary-name space); schedule = which client issues next, which parked database call (of a request or a background continuation) completes next and with which outcome, when each parse/solve closure finishes, when the clock jumps. Non-trivial: at some step two requests were in flight at once or one actor's database call completed while another actor's handler was parked between two of its calls. Distinct = distinct (case hash, decision signature + event log) pairs".into(),
            "contended" => "as `isolation` but all clients draw account names from one pool of two (concurrent registration, rename onto a freed name, re-registration of a deleted name). Same non-trivial / distinct rule".into(),
            _ => "case = 1-2 client scripts centred on add (both parsing strategies; valid, syntactically invalid and undeclared-statement codes) -> solve (six strategies, any order, repeated) -> interleaved gets, delete + re-add under the same name; schedule = when each background closure finishes relative to gets/solves, clock jumps past the 120 s deadline while a task is parked, database faults on any call incl. the continuation's write. Non-trivial: at least one background task ran. Distinct = distinct (case hash, decision signature + event log) pairs".into(),
        }
    }
    fn generate(&self, rng: &mut Rng, thorough: bool) -> SrvCase {
        if self.property == "C16" {
            self.gen_c16(rng, thorough)
        } else {
            self.gen_c17(rng, thorough)
        }
    }
    /// Every world runs in its own forked child process: whatever process-global state the code
    /// under test keeps (statics, thread-locals of pool threads, a poisoned lock) cannot leak
    /// from one simulated world into the next, and a world that kills its process is a verdict.
    fn execute(&self, case: &SrvCase, dec: Decisions) -> RunResult {
        if std::env::var("SRVSIM_NO_FORK").is_ok() {
            return self.execute_here(case, dec);
        }
        crate::isolate::in_child(|| self.execute_here(case, dec))
    }
    fn simplify(&self, c: &SrvCase) -> Vec<SrvCase> {
        self.simplify_case(c)
    }
    fn components(&self) -> serde_json::Value {
        self.components_json()
    }
}

impl Service {
    fn execute_here(&self, case: &SrvCase, dec: Decisions) -> RunResult {
        let sys = actix_rt::System::with_tokio_rt(|| {
            tokio::runtime::Builder::new_current_thread()
                .enable_all()
                .start_paused(true)
                .build()
                .unwrap()
        });
        let key_seed = simcore::batch::case_hash(case);
        let r = sys.block_on(run_world(self, case, dec, key_seed));
        if r.violation.as_ref().map(|v| v.class == "computation-never-ends").unwrap_or(false) {
            // dropping the runtime would wait for the closure that never ends
            std::mem::forget(sys);
        }
        r
    }
}

impl Service {
    pub fn simplify_case(&self, c: &SrvCase) -> Vec<SrvCase> {
        let mut out = Vec::new();
        if c.clients.len() > 1 {
            for i in (0..c.clients.len()).rev() {
                let mut d = c.clone();
                d.clients.remove(i);
                // markers are positional: keep client indices stable by leaving an empty script
                let mut e = c.clone();
                e.clients[i].clear();
                if c.clients[i].is_empty() && i + 1 == c.clients.len() {
                    out.push(d);
                } else if !c.clients[i].is_empty() {
                    out.push(e);
                }
            }
        }
        if c.restarts {
            let mut d = c.clone();
            d.restarts = false;
            out.push(d);
        }
        if c.stall.is_some() {
            let mut d = c.clone();
            d.stall = None;
            out.push(d);
        }
        if c.cancels {
            let mut d = c.clone();
            d.cancels = false;
            out.push(d);
        }
        for (flag, _) in [("faults", 0), ("jumps", 1), ("small", 2)] {
            let mut d = c.clone();
            match flag {
                "faults" if c.faults => {
                    d.faults = false;
                    out.push(d)
                }
                "jumps" if c.jumps => {
                    d.jumps = false;
                    out.push(d)
                }
                "small" if c.small_names => {
                    d.small_names = false;
                    out.push(d)
                }
                _ => {}
            }
        }
        for i in 0..c.clients.len() {
            for j in (0..c.clients[i].len()).rev() {
                let mut d = c.clone();
                d.clients[i].remove(j);
                out.push(d);
            }
        }
        for i in 0..c.clients.len() {
            for j in 0..c.clients[i].len() {
                if let Rq::Add { pname, code: Code::Adf(spec), parsing } = &c.clients[i][j] {
                    for s in spec.simpler() {
                        let mut d = c.clone();
                        d.clients[i][j] = Rq::Add { pname: pname.clone(), code: Code::Adf(s), parsing: parsing.clone() };
                        out.push(d);
                    }
                    if parsing != "Naive" {
                        let mut d = c.clone();
                        d.clients[i][j] = Rq::Add { pname: pname.clone(), code: Code::Adf(spec.clone()), parsing: "Naive".into() };
                        out.push(d);
                    }
                }
            }
        }
        out
    }
    pub fn components_json(&self) -> serde_json::Value {
        serde_json::json!({
            "real": ["every handler in /repo/server/src/adf.rs and user.rs, config.rs, double_labeled_graph.rs", "the App wiring cut out of /repo/server/src/main.rs (identity + cookie-session middleware, scopes, services)", "actix-web / actix-identity / actix-session / actix-multipart, argon2, bson (de)serialisation", "the whole solver library from /repo/lib (real crossbeam-channel)", "tokio runtime (current-thread) and its blocking pool"],
            "stub": ["MongoDB (in-memory store with a gate per call; equality filters, $set, unique index)", "names (candidates from the decision source)", "the network (requests are ServiceRequests, no sockets)", "the clock (tokio paused time, advanced only by decisions)"],
            "hook": ["verif_seam::at(BlockingStart/BlockingEnd) in the two spawn_blocking closures (cfg adf_obdd_verif)"],
        })
    }
}
