//! Oracles of C16 over the JSON a client receives from `GET /adf/{name}`:
//! (A) answers equal the truth-table semantics of the submitted code, (B) graphs are faithful
//! pictures, (C) unparseable code shows an error, (D) an ended task is not listed as running,
//! (E) after quiescence every acknowledged solve has its result.

use crate::scen::{Code, STRATEGIES};
use crate::world::TaskMeta;
use mongodb::sim::OpEvent;
use refsem::{show, AdfSpec, Interp, Sem, V};
use simcore::report::Violation;
use std::collections::{BTreeMap, BTreeSet};

#[derive(Clone, Debug)]
pub struct Prob {
    pub code: Code,
    pub doc_id: Option<u64>,
}

#[derive(Default)]
pub struct State {
    /// documents into which a continuation wrote although it was started for another document
    pub stale_docs: BTreeSet<u64>,
    pub cur: BTreeMap<(usize, String), Prob>,
    /// request tag -> problem document its find_one returned
    pub read_by_tag: BTreeMap<String, u64>,
    pub last_read_doc: Option<u64>,
    /// documents whose continuation write was hit by a database fault
    pub faulted_docs: BTreeSet<u64>,
    /// text -> code, for everything any client submits in this run
    pub codes: BTreeMap<String, Code>,
    pub answers_judged: u64,
    pub graphs_judged: u64,
}

fn field_of(strategy: &str) -> &'static str {
    match strategy {
        "Ground" => "ground",
        "Complete" => "complete",
        "Stable" => "stable",
        "StableCountingA" => "stable_counting_a",
        "StableCountingB" => "stable_counting_b",
        "StableNogood" => "stable_nogood",
        _ => "parse_only",
    }
}

impl State {
    pub fn on_event(&mut self, ev: &OpEvent) {
        if ev.coll == crate::config::ADF_COLL && ev.op == "find_one" {
            if let (Some(tag), Some((id, _))) = (&ev.tag, ev.read.first()) {
                self.read_by_tag.insert(tag.clone(), *id);
                self.last_read_doc = Some(*id);
            }
        }
        if ev.coll == crate::config::ADF_COLL && ev.op == "update_one" && ev.outcome.starts_with("fault") {
            // which document would it have matched? be generous: any document of that name/user
            self.faulted_docs.insert(u64::MAX);
        }
    }

    pub fn on_add_acked(&mut self, c: usize, name: &str, code: &Code, doc_id: Option<u64>) {
        self.cur.insert((c, name.to_string()), Prob { code: code.clone(), doc_id });
    }

    pub fn on_delete_acked(&mut self, c: usize, name: &str) {
        self.cur.remove(&(c, name.to_string()));
    }

    pub fn doc_of(&self, c: usize, name: &str) -> Option<u64> {
        self.cur.get(&(c, name.to_string())).and_then(|p| p.doc_id)
    }

    pub fn response_touches_stale(&self, _body: &str) -> bool {
        match self.last_read_doc {
            Some(d) => self.stale_docs.contains(&d),
            None => false,
        }
    }

    /// Judge one problem JSON. `judge` = C16 configuration (one account per client).
    pub fn on_get(&mut self, c: usize, acct: &str, pname: &str, j: &serde_json::Value, tasks: &BTreeMap<u64, TaskMeta>, judge: bool, exact: bool) -> Option<Violation> {
        if !judge {
            return None;
        }
        // the answers are judged against the code the response itself shows for the problem;
        // that it is the code of the client's last acknowledged add is judged only while the
        // client's model is exact (no database fault has hit one of its calls)
        let shown = j["code"].as_str().unwrap_or("").to_string();
        let model = self.cur.get(&(c, pname.to_string())).cloned();
        let prob = match (&model, self.codes.get(&shown)) {
            (Some(m), _) if m.code.text() == shown => m.clone(),
            (Some(m), _) if exact => {
                return Some(Violation::new("A-answers", "code-differs", format!("get {pname}: code {shown:?}, last acknowledged add submitted {:?}", m.code.text())));
            }
            (_, Some(code)) => Prob { code: code.clone(), doc_id: self.last_read_doc },
            (None, None) if exact => {
                return Some(Violation::new("A-answers", "unknown-code", format!("get {pname}: shows code {shown:?} nobody submitted")));
            }
            _ => return None,
        };
        let doc_now = self.last_read_doc.or(prob.doc_id);
        let stale = doc_now.map(|d| self.stale_docs.contains(&d)).unwrap_or(false) || prob.doc_id.map(|d| self.stale_docs.contains(&d)).unwrap_or(false);
        if stale && !exact {
            // a database fault made `add` create a second document under the same name (its
            // existence check swallowed the error); which of the two a late write lands on is
            // outside what the property speaks about
            return None;
        }
        let keyed = |v: Violation| -> Violation {
            if stale {
                let k = format!("{}/adf.rs:continuation-update_one/stale-task-after-name-reuse", v.oracle);
                v.with_key(k)
            } else {
                v
            }
        };
        // (D) running flag
        if let Some(arr) = j["running_tasks"].as_array() {
            for r in arr {
                let name = match (r["type"].as_str(), r["content"].as_str()) {
                    (Some("Parse"), _) => "Parse".to_string(),
                    (Some("Solve"), Some(s)) => format!("Solve({s})"),
                    _ => format!("{r}"),
                };
                let mine: Vec<&TaskMeta> = tasks.values().filter(|t| t.client == c && t.adf_name == pname && t.task == name).collect();
                if !mine.iter().any(|t| !t.ended) {
                    let panicked = mine.iter().any(|t| t.panicked);
                    let v = Violation::new("D-running-flag", if panicked { "set-after-closure-panicked" } else { "set-after-task-ended" }, format!("get {pname}: lists {name} as running, but every such task of this problem has ended ({} started, panicked: {panicked})", mine.len()));
                    return Some(v);
                }
            }
        }
        let acs = &j["acs_per_strategy"];
        match &prob.code {
            Code::Raw(text) => {
                // (C) never an answer for code that cannot be turned into an ADF
                for f in ["parse_only", "ground", "complete", "stable", "stable_counting_a", "stable_counting_b", "stable_nogood"] {
                    if acs[f]["type"].as_str() == Some("Some") {
                        return Some(keyed(Violation::new("C-errors", "answer-for-unparseable-code", format!("get {pname}: {f} shows an answer for code {text:?}"))));
                    }
                }
                let parse_tasks: Vec<&TaskMeta> = tasks.values().filter(|t| t.client == c && t.adf_name == pname && t.task == "Parse" && t.doc_id == prob.doc_id).collect();
                let finished = parse_tasks.iter().any(|t| !t.died && (t.ended || t.timed_out) && t.cont == crate::world::Cont::Done);
                if finished && exact && acs["parse_only"]["type"].as_str() != Some("Error") && self.faulted_docs.is_empty() && !stale {
                    let v = Violation::new("C-errors", "no-error-reported", format!("get {pname}: parsing of {text:?} is over but parse_only shows {}", acs["parse_only"]));
                    // the error is a result like any other: lost if the owner's name changed
                    // while the parse task was in flight (open finding, keyed by cause)
                    let across_rename = !acct.is_empty() && parse_tasks.iter().filter(|t| !t.died && t.cont == crate::world::Cont::Done).all(|t| t.username != acct);
                    return Some(if across_rename { v.with_key("E-liveness/user.rs:update_user/task-in-flight-across-rename".to_string()) } else { v });
                }
                None
            }
            Code::Adf(spec) => {
                let sem = Sem::new(spec);
                // parse result
                if acs["parse_only"]["type"].as_str() == Some("Some") {
                    let list = acs["parse_only"]["content"].as_array().cloned().unwrap_or_default();
                    if list.len() != 1 {
                        return Some(keyed(Violation::new("B-graphs", "parse-result-shape", format!("get {pname}: parse_only holds {} entries", list.len()))));
                    }
                    self.graphs_judged += 1;
                    if let Err((class, m)) = check_graph(spec, &sem, &list[0], None) {
                        return Some(keyed(Violation::new("B-graphs", &class, format!("get {pname} parse_only: {m} [{}]", spec.text()))));
                    }
                }
                for s in STRATEGIES {
                    let f = field_of(s);
                    if acs[f]["type"].as_str() != Some("Some") {
                        continue;
                    }
                    if spec.n() > 8 && s != "Ground" {
                        // the definitional oracle for complete / stable is exponential in n
                        continue;
                    }
                    let list = acs[f]["content"].as_array().cloned().unwrap_or_default();
                    let mut got: Vec<Interp> = Vec::new();
                    for m in &list {
                        let Some(ac) = m["ac"].as_array() else {
                            return Some(keyed(Violation::new("A-answers", "malformed", format!("get {pname} {f}: entry without ac list"))));
                        };
                        if ac.len() != spec.n() {
                            return Some(keyed(Violation::new("A-answers", "wrong-arity", format!("get {pname} {f}: model with {} entries for {} statements [{}]", ac.len(), spec.n(), spec.text()))));
                        }
                        let v: Interp = ac
                            .iter()
                            .map(|t| match t.as_str() {
                                Some("1") => V::T,
                                Some("0") => V::F,
                                _ => V::U,
                            })
                            .collect();
                        self.graphs_judged += 1;
                        if let Err((class, msg)) = check_graph(spec, &sem, m, Some(&v)) {
                            return Some(keyed(Violation::new("B-graphs", &class, format!("get {pname} {f} model {}: {msg} [{}]", show(&v), spec.text()))));
                        }
                        got.push(v);
                    }
                    let want: Vec<Interp> = match s {
                        "Ground" => vec![sem.grounded()],
                        "Complete" => sem.complete(),
                        _ => sem.stable(),
                    };
                    self.answers_judged += 1;
                    let mut gs = got.clone();
                    gs.sort();
                    let mut ws = want.clone();
                    ws.sort();
                    if gs != ws {
                        let mut dd = gs.clone();
                        dd.dedup();
                        let missing: Vec<String> = ws.iter().filter(|x| !gs.contains(x)).map(|x| show(x)).collect();
                        let extra: Vec<String> = gs.iter().filter(|x| !ws.contains(x)).map(|x| show(x)).collect();
                        let class = if dd.len() != gs.len() {
                            "duplicate-model"
                        } else if extra.is_empty() {
                            "missing-models-only"
                        } else if missing.is_empty() {
                            "invented-model"
                        } else {
                            "wrong-models"
                        };
                        let mut v = Violation::new("A-answers", class, format!("get {pname} {f}: got {:?}, definition gives {:?} (missing {missing:?}, not expected {extra:?}) [{}]", gs.iter().map(|x| show(x)).collect::<Vec<_>>(), ws.iter().map(|x| show(x)).collect::<Vec<_>>(), spec.text()));
                        if class == "missing-models-only" && s.starts_with("StableCounting") && !stale {
                            v = v.with_key("A/strategy=StableCounting*/missing-models-only".into());
                            return Some(v);
                        }
                        return Some(keyed(v));
                    }
                }
                None
            }
        }
    }

    /// (E) bounded liveness at quiescence.
    /// `acct`: the account name the client holds at the end. A background task stores its result
    /// under the account name it was started with; if the client changed its name (or, as a
    /// temporary user, registered) while the task was in flight, that write matches nothing and
    /// the result is lost — real behaviour of the pinned tree, keyed by cause (open finding).
    pub fn final_liveness(&mut self, c: usize, acct: &str, pname: &str, j: &serde_json::Value, solves: &[(usize, String, String, u64)], tasks: &BTreeMap<u64, TaskMeta>, faults: bool, exact: bool) -> Option<Violation> {
        const RENAME_KEY: &str = "E-liveness/user.rs:update_user/task-in-flight-across-rename";
        if faults {
            return None;
        }
        let prob = self.cur.get(&(c, pname.to_string()))?.clone();
        // A client whose model is no longer exact (a request of its was dropped by a disconnect
        // or lost in a restart) may be shown another document than the one its last acknowledged
        // add created - e.g. a delete and an add that were executed but never acknowledged. The
        // tasks the model knows belong to the old document; nothing is demanded of the new one.
        if !exact && self.last_read_doc.is_some() && self.last_read_doc != prob.doc_id {
            return None;
        }
        if prob.doc_id.map(|d| self.stale_docs.contains(&d)).unwrap_or(false) {
            return None;
        }
        let acs = &j["acs_per_strategy"];
        // parse result present (Some or Error) once the parse task of this document is over
        let parse_task = tasks.values().find(|t| !t.died && t.client == c && t.adf_name == pname && t.task == "Parse" && t.doc_id == prob.doc_id && t.cont == crate::world::Cont::Done);
        if let Some(pt) = parse_task {
            if acs["parse_only"]["type"].as_str() == Some("None") {
                let v = Violation::new("E-liveness", "parse-result-never-stored", format!("final get {pname}: parse task (started under account {:?}, client is {acct:?} now) over, continuation completed, parse_only still None", pt.username));
                return Some(if !acct.is_empty() && pt.username != acct { v.with_key(RENAME_KEY.to_string()) } else { v });
            }
        }
        for (sc, sp, strat, tid) in solves {
            if *sc != c || sp != pname {
                continue;
            }
            let Some(t) = tasks.get(tid) else { continue };
            if t.died || t.doc_id != prob.doc_id || t.cont != crate::world::Cont::Done {
                continue;
            }
            let f = field_of(strat);
            let ty = acs[f]["type"].as_str().unwrap_or("?");
            // any acknowledged solve of this strategy on this document that hit its deadline
            // (or unwound) may have stored an error last
            let any_failed = solves.iter().any(|(c2, p2, s2, t2)| c2 == sc && p2 == sp && s2 == strat && tasks.get(t2).map(|x| x.doc_id == t.doc_id && (x.timed_out || x.panicked || x.died)).unwrap_or(false));
            let ok = if any_failed { ty == "Some" || ty == "Error" } else { ty == "Some" };
            if !ok {
                let v = Violation::new("E-liveness", "solve-result-missing", format!("final get {pname}: solve {strat} was acknowledged (task started under account {:?}, client is {acct:?} now), its task ended (timed out: {}) and its write completed, but {f} shows {}", t.username, t.timed_out, clipv(&acs[f])));
                return Some(if !acct.is_empty() && t.username != acct { v.with_key(RENAME_KEY.to_string()) } else { v });
            }
        }
        None
    }
}

fn clipv(v: &serde_json::Value) -> String {
    crate::scen::clip(&v.to_string())
}

/// (B): node set = reachable set; one lo and one hi edge per inner node; labels are statement
/// names / TOP / BOT; following edges from the root of statement s under every assignment that
/// extends the decided part of the shown model evaluates φ_s.
fn check_graph(spec: &AdfSpec, sem: &Sem, entry: &serde_json::Value, model: Option<&Interp>) -> Result<(), (String, String)> {
    let e = |c: &str, m: String| Err((c.to_string(), m));
    let g = &entry["graph"];
    let Some(ac) = entry["ac"].as_array() else { return e("malformed", "no ac list".into()) };
    let roots: Vec<String> = ac.iter().map(|x| x.as_str().unwrap_or("?").to_string()).collect();
    if roots.len() != spec.n() {
        return e("wrong-arity", format!("{} roots for {} statements", roots.len(), spec.n()));
    }
    let Some(labels) = g["node_labels"].as_object() else { return e("malformed", "no node_labels".into()) };
    let Some(root_labels) = g["tree_root_labels"].as_object() else { return e("malformed", "no tree_root_labels".into()) };
    let edges = |k: &str| -> Result<BTreeMap<String, Vec<String>>, (String, String)> {
        let mut m: BTreeMap<String, Vec<String>> = BTreeMap::new();
        let Some(arr) = g[k].as_array() else { return Err(("malformed".into(), format!("no {k}"))) };
        for p in arr {
            let (Some(a), Some(b)) = (p[0].as_str(), p[1].as_str()) else { return Err(("malformed".into(), format!("bad edge {p}"))) };
            m.entry(a.to_string()).or_default().push(b.to_string());
        }
        Ok(m)
    };
    let lo = edges("lo_edges")?;
    let hi = edges("hi_edges")?;
    // reachable set
    let mut reach: BTreeSet<String> = BTreeSet::new();
    let mut todo: Vec<String> = roots.clone();
    while let Some(n) = todo.pop() {
        if !reach.insert(n.clone()) {
            continue;
        }
        for m in lo.get(&n).into_iter().flatten().chain(hi.get(&n).into_iter().flatten()) {
            todo.push(m.clone());
        }
    }
    let nodes: BTreeSet<String> = labels.keys().cloned().collect();
    if nodes != reach {
        return e("node-set", format!("graph nodes {nodes:?} but reachable from the roots {reach:?}"));
    }
    let rl_nodes: BTreeSet<String> = root_labels.keys().cloned().collect();
    if rl_nodes != nodes {
        return e("node-set", format!("tree_root_labels covers {rl_nodes:?}, nodes are {nodes:?}"));
    }
    for (id, l) in labels {
        let l = l.as_str().unwrap_or("?");
        let leaf = l == "TOP" || l == "BOT";
        let (nl, nh) = (lo.get(id).map(|v| v.len()).unwrap_or(0), hi.get(id).map(|v| v.len()).unwrap_or(0));
        if leaf && (nl != 0 || nh != 0) {
            return e("edges", format!("leaf {id} has outgoing edges"));
        }
        if !leaf {
            if !spec.names.iter().any(|n| n == l) {
                return e("labels", format!("node {id} labelled {l:?}, not a statement / TOP / BOT"));
            }
            if nl != 1 || nh != 1 {
                return e("edges", format!("node {id} ({l}) has {nl} lo and {nh} hi edges"));
            }
        }
    }
    // root labels: statement s is listed exactly at its root
    for (i, r) in roots.iter().enumerate() {
        let here = root_labels.get(r).and_then(|x| x.as_array()).map(|a| a.iter().any(|x| x.as_str() == Some(spec.names[i].as_str()))).unwrap_or(false);
        if !here {
            return e("root-labels", format!("statement {} has root {r} but is not listed there: {}", spec.names[i], g["tree_root_labels"]));
        }
    }
    let listed: usize = root_labels.values().map(|x| x.as_array().map(|a| a.len()).unwrap_or(0)).sum();
    if listed != spec.n() {
        return e("root-labels", format!("{listed} root labels for {} statements", spec.n()));
    }
    // evaluation
    let n = spec.n();
    let (mut mask, mut val) = (0u32, 0u32);
    if let Some(m) = model {
        for (i, v) in m.iter().enumerate() {
            match v {
                V::T => {
                    mask |= 1 << i;
                    val |= 1 << i;
                }
                V::F => mask |= 1 << i,
                V::U => {}
            }
        }
    }
    for w in 0..(1u32 << n) {
        if w & mask != val {
            continue;
        }
        for (i, r) in roots.iter().enumerate() {
            let mut cur = r.clone();
            let mut steps = 0;
            let res = loop {
                let l = labels.get(&cur).and_then(|x| x.as_str()).unwrap_or("?");
                if l == "TOP" {
                    break true;
                }
                if l == "BOT" {
                    break false;
                }
                let Some(j) = spec.names.iter().position(|nm| nm == l) else { return e("labels", format!("node {cur} label {l}")) };
                let next = if (w >> j) & 1 == 1 { &hi } else { &lo };
                cur = match next.get(&cur).and_then(|v| v.first()) {
                    Some(x) => x.clone(),
                    None => return e("edges", format!("no edge out of {cur}")),
                };
                steps += 1;
                if steps > 64 {
                    return e("edges", "cycle".into());
                }
            };
            if res != sem.tabs[i][w as usize] {
                return e("evaluation", format!("statement {} under assignment {w:#b}: graph evaluates to {res}, acceptance condition to {}", spec.names[i], sem.tabs[i][w as usize]));
            }
        }
    }
    Ok(())
}
