//! Run one simulated world in a forked child process and ship its `RunResult` back.

use simcore::batch::{RunResult, Stats};
use simcore::report::Violation;
use std::io::{Read, Write};
use std::os::fd::FromRawFd;

fn to_json(r: &RunResult) -> serde_json::Value {
    serde_json::json!({
        "violation": r.violation,
        "decisions": r.decisions,
        "signature": r.signature,
        "log_hash": r.log_hash,
        "nontrivial": r.nontrivial,
        "sum": r.stats.sum,
        "max": r.stats.max,
    })
}

fn from_json(v: &serde_json::Value) -> Option<RunResult> {
    let mut stats = Stats::default();
    for (k, x) in v["sum"].as_object()? {
        stats.sum.insert(k.clone(), x.as_u64()?);
    }
    for (k, x) in v["max"].as_object()? {
        stats.max.insert(k.clone(), x.as_u64()?);
    }
    Some(RunResult {
        violation: serde_json::from_value::<Option<Violation>>(v["violation"].clone()).ok()?,
        decisions: v["decisions"].as_array()?.iter().filter_map(|x| x.as_u64()).collect(),
        signature: v["signature"].as_u64()?,
        log_hash: v["log_hash"].as_u64()?,
        nontrivial: v["nontrivial"].as_bool()?,
        stats,
    })
}

/// real-time cap for one world (a healthy world takes well under a second)
pub const WORLD_REAL_TIME_CAP_S: u32 = 150;

pub fn in_child(f: impl FnOnce() -> RunResult) -> RunResult {
    let mut fds = [0i32; 2];
    // SAFETY: plain POSIX calls; the child only runs `f`, writes to the pipe and `_exit`s.
    unsafe {
        if libc::pipe(fds.as_mut_ptr()) != 0 {
            return harness("pipe() failed");
        }
        let pid = libc::fork();
        if pid < 0 {
            return harness("fork() failed");
        }
        if pid == 0 {
            libc::close(fds[0]);
            // a world that never ends (a computation that loops without reaching a hook) is
            // ended by the default action of SIGALRM; the parent reports the death
            libc::alarm(WORLD_REAL_TIME_CAP_S);
            let r = f();
            let text = to_json(&r).to_string();
            let mut w = std::fs::File::from_raw_fd(fds[1]);
            let _ = w.write_all(text.as_bytes());
            let _ = w.flush();
            drop(w);
            libc::_exit(0);
        }
        libc::close(fds[1]);
        let mut r = std::fs::File::from_raw_fd(fds[0]);
        let mut text = String::new();
        let _ = r.read_to_string(&mut text);
        drop(r);
        let mut status = 0i32;
        libc::waitpid(pid, &mut status, 0);
        if let Ok(v) = serde_json::from_str::<serde_json::Value>(&text) {
            if let Some(res) = from_json(&v) {
                return res;
            }
        }
        let how = if libc::WIFSIGNALED(status) {
            format!("killed by signal {}{}", libc::WTERMSIG(status), if libc::WTERMSIG(status) == libc::SIGALRM { " = SIGALRM: the world did not finish within its real-time cap, some computation never ended" } else { "" })
        } else {
            format!("exit status {}", libc::WEXITSTATUS(status))
        };
        RunResult {
            violation: Some(simcore::batch::process_aborted(&format!("the world's process ended without a result: {how}"))),
            decisions: Vec::new(),
            signature: 0,
            log_hash: 0,
            nontrivial: false,
            stats: Stats::default(),
        }
    }
}

fn harness(msg: &str) -> RunResult {
    RunResult {
        violation: Some(Violation::new("harness", "error", msg.to_string())),
        decisions: Vec::new(),
        signature: 0,
        log_hash: 0,
        nontrivial: false,
        stats: Stats::default(),
    }
}
