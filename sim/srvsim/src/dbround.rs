//! C14, database layer: the web service's *own* conversions (`SimplifiedAdf::from(Adf)`,
//! `Adf::from(SimplifiedAdf)`, the string re-encoding of handles, variables and positions — the
//! real code of /repo/server/src/adf.rs) with a BSON round trip in between, placed as a
//! "restart" at arbitrary points of a history of solver calls. The restarted object must keep
//! the node numbering and must from then on answer — handle for handle — and grow its node
//! table exactly like a twin that was never stored.
//!
//! No HTTP, no scheduler: the history is the schedule (as in libsim's `history` scenario, whose
//! RestartDb step performs the same library calls by hand).

use crate::adf::SimplifiedAdf;
use adf_bdd::adf::Adf;
use adf_bdd::adfbiodivine::Adf as BdAdf;
use adf_bdd::datatypes::Term;
use adf_bdd::parser::AdfParser;
use refsem::AdfSpec;
use serde::{Deserialize, Serialize};
use simcore::batch::{RunResult, Scenario, Stats};
use simcore::report::Violation;
use simcore::{Decisions, Fnv, Rng};

#[derive(Clone, Copy, Debug, Serialize, Deserialize, PartialEq, Eq, Hash)]
pub enum DStep {
    Ground,
    Complete,
    Stable,
    StableCountingA,
    StableCountingB,
    StableNogood,
    /// store (SimplifiedAdf -> BSON) and load (BSON -> SimplifiedAdf -> Adf), as a solve request
    /// after an add or after an earlier solve does
    Restart,
}

#[derive(Clone, Debug, Serialize, Deserialize, PartialEq, Eq, Hash)]
pub struct DbCase {
    pub spec: AdfSpec,
    pub hybrid: bool,
    pub steps: Vec<DStep>,
}

pub struct DbRound;

fn build(spec: &AdfSpec, hybrid: bool) -> Result<Adf, String> {
    let parser = AdfParser::default();
    let code = spec.text();
    parser.parse()(&code).map_err(|e| format!("parse error: {e:?}"))?;
    Ok(if hybrid { BdAdf::from_parser(&parser).hybrid_step_opt(false) } else { Adf::from_parser(&parser) })
}

fn answer(adf: &mut Adf, s: DStep) -> Vec<Vec<Term>> {
    match s {
        DStep::Ground => vec![adf.grounded()],
        DStep::Complete => adf.complete().collect(),
        DStep::Stable => adf.stable().collect(),
        DStep::StableCountingA => adf.stable_count_optimisation_heu_a().collect(),
        DStep::StableCountingB => adf.stable_count_optimisation_heu_b().collect(),
        DStep::StableNogood => adf.stable_nogood(adf_bdd::adf::heuristics::Heuristic::default()).collect(),
        DStep::Restart => Vec::new(),
    }
}

fn store_and_load(adf: Adf) -> Result<Adf, String> {
    let simp = SimplifiedAdf::from(adf);
    let b = mongodb::bson::to_bson(&simp).map_err(|e| format!("to_bson: {e}"))?;
    let back: SimplifiedAdf = mongodb::bson::from_bson(b).map_err(|e| format!("from_bson: {e}"))?;
    Ok(Adf::from(back))
}

fn names_of(adf: &Adf) -> Vec<String> {
    adf.ordering.names().read().unwrap().clone()
}

fn mapping_of(adf: &Adf) -> Vec<(String, usize)> {
    let mut v: Vec<(String, usize)> = adf.ordering.mappings().read().unwrap().iter().map(|(k, v)| (k.clone(), *v)).collect();
    v.sort();
    v
}

fn fmt_terms(v: &[Vec<Term>]) -> String {
    v.iter().map(|m| m.iter().map(|t| t.value().to_string()).collect::<Vec<_>>().join(",")).collect::<Vec<_>>().join(" | ")
}

impl DbRound {
    fn viol(&self, oracle: &str, class: &str, msg: String, case: &DbCase) -> Option<Violation> {
        Some(Violation::new(oracle, class, format!("{msg} [{} {}]", case.spec.text(), if case.hybrid { "Hybrid" } else { "Naive" })))
    }

    fn run(&self, case: &DbCase, stats: &mut Stats, log: &mut Fnv) -> Option<Violation> {
        let (mut cur, mut twin) = match (build(&case.spec, case.hybrid), build(&case.spec, case.hybrid)) {
            (Ok(a), Ok(b)) => (a, b),
            (Err(e), _) | (_, Err(e)) => return self.viol("harness", "build", e, case),
        };
        let mut restarts = 0u32;
        for (i, s) in case.steps.iter().enumerate() {
            if *s == DStep::Restart {
                let nodes_before = cur.bdd.nodes.clone();
                let ac_before = cur.ac.clone();
                let names_before = names_of(&cur);
                let map_before = mapping_of(&cur);
                cur = match store_and_load(cur) {
                    Ok(a) => a,
                    Err(e) => return self.viol("db-round-trip", "conversion-failed", format!("step {i}: {e}"), case),
                };
                restarts += 1;
                stats.inc("fault_restart_through_database_layer_fired");
                if cur.bdd.nodes != nodes_before {
                    return self.viol("db-round-trip", "node-numbering", format!("step {i}: the loaded object has {} nodes, the stored one had {}; first difference at {:?}", cur.bdd.nodes.len(), nodes_before.len(), cur.bdd.nodes.iter().zip(nodes_before.iter()).position(|(a, b)| a != b)), case);
                }
                if cur.ac != ac_before {
                    return self.viol("db-round-trip", "roots", format!("step {i}: roots {:?}, stored {:?}", cur.ac, ac_before), case);
                }
                if names_of(&cur) != names_before || mapping_of(&cur) != map_before {
                    return self.viol("db-round-trip", "ordering", format!("step {i}: names {:?} / {:?}, stored {:?} / {:?}", names_of(&cur), mapping_of(&cur), names_before, map_before), case);
                }
                continue;
            }
            let a = answer(&mut cur, *s);
            let b = answer(&mut twin, *s);
            log.str(&fmt_terms(&a));
            if a != b {
                return self.viol("restart-transparency", "answers", format!("step {i} {s:?} after {restarts} restart(s): loaded object answered {}, never-stored twin {}", fmt_terms(&a), fmt_terms(&b)), case);
            }
            if cur.bdd.nodes != twin.bdd.nodes {
                return self.viol(
                    "restart-transparency",
                    "node-table",
                    format!("step {i} {s:?} after {restarts} restart(s): the loaded object's table has {} nodes, the never-stored twin's {}; first difference at {:?}", cur.bdd.nodes.len(), twin.bdd.nodes.len(), cur.bdd.nodes.iter().zip(twin.bdd.nodes.iter()).position(|(a, b)| a != b)),
                    case,
                );
            }
        }
        log.u64(cur.bdd.nodes.len() as u64);
        None
    }
}

impl Scenario for DbRound {
    type Case = DbCase;
    fn name(&self) -> &'static str {
        "dbround"
    }
    fn property(&self) -> &'static str {
        "C14"
    }
    fn rule(&self) -> String {
        "case = ADF (1-6 statements, odd labels 1 in 4; or 11-13 statements so that string-encoded positions sort differently) + parsing (Naive / Hybrid as the add handler builds it) + history of 2-10 steps over the six web strategies and Restart = the service's own SimplifiedAdf::from(Adf) -> BSON -> SimplifiedAdf -> Adf::from. Non-trivial: a restart fired and an answer was taken afterwards. Distinct = distinct case hashes (the history is the schedule)".into()
    }
    fn generate(&self, rng: &mut Rng, thorough: bool) -> DbCase {
        let big = rng.chance(1, 10);
        let n = if big { rng.range(11, 13) } else { rng.range(1, if thorough { 6 } else { 5 }) } as usize;
        let depth = if big { 1 } else { rng.range(1, 3) as u32 };
        let mut spec = AdfSpec::gen(rng, n, depth, "s");
        if !big && rng.chance(1, 4) {
            refsem::odd_names(rng, &mut spec);
        }
        let len = rng.range(2, if thorough { 10 } else { 7 }) as usize;
        let mut steps: Vec<DStep> = (0..len)
            .map(|_| match rng.below(if big { 6 } else { 10 }) {
                0 | 1 | 2 => DStep::Restart,
                3 | 4 => DStep::Ground,
                5 => DStep::StableNogood,
                6 => DStep::Complete,
                7 => DStep::Stable,
                8 => DStep::StableCountingA,
                _ => DStep::StableCountingB,
            })
            .collect();
        if !steps.contains(&DStep::Restart) {
            steps[0] = DStep::Restart;
        }
        DbCase { spec, hybrid: rng.chance(1, 2), steps }
    }
    fn execute(&self, case: &DbCase, dec: Decisions) -> RunResult {
        let mut stats = Stats::default();
        let mut log = Fnv::new();
        let r = std::panic::catch_unwind(std::panic::AssertUnwindSafe(|| self.run(case, &mut stats, &mut log)));
        let violation = match r {
            Ok(v) => v,
            Err(p) => {
                let m = p.downcast_ref::<String>().cloned().or_else(|| p.downcast_ref::<&str>().map(|s| s.to_string())).unwrap_or_else(|| "panic".into());
                self.viol("no-panic", "database-layer", format!("panic: {m}"), case)
            }
        };
        let first_restart = case.steps.iter().position(|s| *s == DStep::Restart);
        let nontrivial = first_restart.map(|p| case.steps[p..].iter().any(|s| *s != DStep::Restart)).unwrap_or(false);
        RunResult { violation, decisions: dec.values(), signature: simcore::batch::case_hash(case), log_hash: log.finish(), nontrivial, stats }
    }
    fn simplify(&self, c: &DbCase) -> Vec<DbCase> {
        let mut out = Vec::new();
        for i in (0..c.steps.len()).rev() {
            if c.steps.len() > 1 {
                let mut d = c.clone();
                d.steps.remove(i);
                out.push(d);
            }
        }
        for s in c.spec.simpler() {
            let mut d = c.clone();
            d.spec = s;
            out.push(d);
        }
        if c.hybrid {
            let mut d = c.clone();
            d.hybrid = false;
            out.push(d);
        }
        out
    }
    fn components(&self) -> serde_json::Value {
        serde_json::json!({
            "real": ["server/src/adf.rs conversions (SimplifiedAdf, VarContainerDb, BddNodeDb <-> library types)", "bson serialisation", "adf_bdd library (parser, both construction routes, all six web strategies)"],
            "stub": ["no database process: the document is the BSON value itself"],
        })
    }
}
