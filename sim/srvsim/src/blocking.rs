//! Controller for the parse/solve closures that the server runs on tokio's blocking pool.
//!
//! Through the guarded hook `verif_seam::at` a closure reports `BlockingStart` (it has
//! registered itself in `currently_running`) and `BlockingEnd` (it has deregistered). At
//! `BlockingStart` the pool thread parks here until the simulator releases that task, so *when a
//! computation finishes relative to every other event* is a decision of the simulator. The
//! simulator waits for specific observable events (arrival, end) with a real-time cap that only
//! turns a stuck harness into an error — it never influences what happens.

use crate::config::RunningInfo;
use std::cell::Cell;
use std::sync::{Condvar, Mutex};
use std::time::Duration;

#[derive(Clone, Debug)]
pub struct TaskRec {
    pub id: u64,
    pub username: String,
    pub adf_name: String,
    /// `Parse` or `Solve(<strategy>)`, from the Debug rendering of the server's `Task`
    pub task: String,
    pub released: bool,
    pub ended: bool,
    pub panicked: bool,
}

struct Ctrl {
    tasks: Vec<TaskRec>,
    next: u64,
    release_all: bool,
}

static CTRL: Mutex<Ctrl> = Mutex::new(Ctrl { tasks: Vec::new(), next: 1, release_all: false });
static CV: Condvar = Condvar::new();

thread_local! {
    static CUR: Cell<Option<u64>> = const { Cell::new(None) };
}

fn lock() -> std::sync::MutexGuard<'static, Ctrl> {
    CTRL.lock().unwrap_or_else(|e| e.into_inner())
}

/// Install the seam callback and a quiet panic hook (once per process).
pub fn install() {
    #[cfg(adf_obdd_verif)]
    crate::verif_seam::install(Box::new(|point, info: &RunningInfo| match point {
        crate::verif_seam::Point::BlockingStart => {
            let mut g = lock();
            let id = g.next;
            g.next += 1;
            g.tasks.push(TaskRec {
                id,
                username: info.username.clone(),
                adf_name: info.adf_name.clone(),
                task: format!("{:?}", info.task),
                released: false,
                ended: false,
                panicked: false,
            });
            CUR.with(|c| c.set(Some(id)));
            // bounded liveness in counted steps for the searches that carry the library's hook
            adf_bdd::verif::arm(2_000_000);
            CV.notify_all();
            loop {
                let rel = g.release_all || g.tasks.iter().any(|t| t.id == id && t.released);
                if rel {
                    break;
                }
                g = CV.wait(g).unwrap_or_else(|e| e.into_inner());
            }
        }
        crate::verif_seam::Point::BlockingEnd => {
            let id = CUR.with(|c| c.take());
            let mut g = lock();
            if let Some(t) = g.tasks.iter_mut().find(|t| Some(t.id) == id) {
                t.ended = true;
            }
            CV.notify_all();
        }
    }));
    simcore::panics::install_quiet_hook();
    let prev = std::panic::take_hook();
    std::panic::set_hook(Box::new(move |info| {
        prev(info);
        // a closure that unwinds never reaches BlockingEnd: record that it is over
        if let Some(id) = CUR.with(|c| c.take()) {
            let mut g = lock();
            if let Some(t) = g.tasks.iter_mut().find(|t| t.id == id) {
                t.ended = true;
                t.panicked = true;
            }
            CV.notify_all();
        }
    }));
}

/// Start of a simulated world: forget finished tasks (none may be left parked).
pub fn reset() {
    let mut g = lock();
    g.tasks.clear();
    g.next = 1;
    g.release_all = false;
}

pub fn snapshot() -> Vec<TaskRec> {
    lock().tasks.clone()
}

pub fn parked() -> Vec<TaskRec> {
    lock().tasks.iter().filter(|t| !t.released && !t.ended).cloned().collect()
}

/// Wait until `n` tasks have arrived at BlockingStart in total (real-time cap: harness error).
pub fn wait_arrivals(n: usize) -> bool {
    let mut g = lock();
    let deadline = std::time::Instant::now() + Duration::from_secs(10);
    while g.tasks.len() < n {
        let now = std::time::Instant::now();
        if now >= deadline {
            return false;
        }
        g = CV.wait_timeout(g, deadline - now).unwrap_or_else(|e| e.into_inner()).0;
    }
    true
}

/// Let task `id` run to its end and wait until it reports `BlockingEnd` (or unwinds).
pub fn release_and_wait(id: u64) -> Option<TaskRec> {
    let mut g = lock();
    if let Some(t) = g.tasks.iter_mut().find(|t| t.id == id) {
        t.released = true;
    } else {
        return None;
    }
    CV.notify_all();
    let deadline = std::time::Instant::now() + Duration::from_secs(15);
    loop {
        if let Some(t) = g.tasks.iter().find(|t| t.id == id) {
            if t.ended {
                return Some(t.clone());
            }
        }
        let now = std::time::Instant::now();
        if now >= deadline {
            return None;
        }
        g = CV.wait_timeout(g, deadline - now).unwrap_or_else(|e| e.into_inner()).0;
    }
}

/// End of a world: release everything that is still parked and wait for it.
pub fn release_all_and_wait() -> bool {
    let mut g = lock();
    g.release_all = true;
    for t in g.tasks.iter_mut() {
        t.released = true;
    }
    CV.notify_all();
    let deadline = std::time::Instant::now() + Duration::from_secs(15);
    while g.tasks.iter().any(|t| !t.ended) {
        let now = std::time::Instant::now();
        if now >= deadline {
            return false;
        }
        g = CV.wait_timeout(g, deadline - now).unwrap_or_else(|e| e.into_inner()).0;
    }
    true
}
