//! Cuts the application wiring out of /repo/server/src/main.rs so that the simulated service
//! is assembled by the *repository's* code (middleware order, scopes, services), not by a copy:
//!
//! * `imports.rs`   every top-level `use …;` item of main.rs (with its `#[cfg]` attributes)
//! * `app_wiring.rs` the brace-balanced body of the closure passed to `HttpServer::new`,
//!                   wrapped in a block so it can be `include!`d as one expression
//!
//! If main.rs no longer has that shape the build fails — a harness error, never a silent pass.
use std::fs;
use std::path::Path;

fn main() {
    let src_path = "/repo/server/src/main.rs";
    println!("cargo:rerun-if-changed={src_path}");
    println!("cargo:rerun-if-changed=build.rs");
    let src = fs::read_to_string(src_path).expect("read /repo/server/src/main.rs");
    let out_dir = std::env::var("OUT_DIR").unwrap();

    // ---- imports: top-level `use` items (column 0), possibly preceded by #[cfg(..)] lines
    let mut imports = String::new();
    let mut pending_attrs = String::new();
    let mut in_use = false;
    for line in src.lines() {
        if in_use {
            imports.push_str(line);
            imports.push('\n');
            if line.trim_end().ends_with(';') {
                in_use = false;
            }
            continue;
        }
        if line.starts_with("#[cfg(") {
            pending_attrs.push_str(line);
            pending_attrs.push('\n');
            continue;
        }
        if line.starts_with("use ") {
            imports.push_str(&pending_attrs);
            pending_attrs.clear();
            imports.push_str(line);
            imports.push('\n');
            if !line.trim_end().ends_with(';') {
                in_use = true;
            }
            continue;
        }
        pending_attrs.clear();
    }
    fs::write(Path::new(&out_dir).join("imports.rs"), imports).unwrap();

    // ---- wiring: body of `HttpServer::new(move || { … })`
    let marker = "HttpServer::new(move || {";
    let start = src.find(marker).expect("main.rs: `HttpServer::new(move || {` not found") + marker.len();
    let bytes = src.as_bytes();
    let mut depth = 1i32;
    let mut i = start;
    let mut in_str = false;
    let mut in_line_comment = false;
    while i < bytes.len() {
        let c = bytes[i] as char;
        if in_line_comment {
            if c == '\n' {
                in_line_comment = false;
            }
        } else if in_str {
            if c == '\\' {
                i += 1;
            } else if c == '"' {
                in_str = false;
            }
        } else if c == '"' {
            in_str = true;
        } else if c == '/' && i + 1 < bytes.len() && bytes[i + 1] as char == '/' {
            in_line_comment = true;
        } else if c == '{' {
            depth += 1;
        } else if c == '}' {
            depth -= 1;
            if depth == 0 {
                break;
            }
        }
        i += 1;
    }
    assert!(depth == 0, "main.rs: unbalanced braces after HttpServer::new");
    let body = &src[start..i];
    fs::write(Path::new(&out_dir).join("app_wiring.rs"), format!("{{\n{body}\n}}\n")).unwrap();
}
