//! C19 (and the mirror part of C06): a producer store streams its new nodes over the simulated
//! channel, an optional relay forwards them, a receiver mirrors them. Three simulated threads;
//! the scheduler decides at every channel operation who runs, so receiver polls fall at every
//! position between the individual `send`s inside one producer operation.

use crate::common::{canon_check, fmt_nodes, tt};
use adf_bdd::datatypes::{BddNode, Term, Var};
use adf_bdd::obdd::Bdd;
use serde::{Deserialize, Serialize};
use simcore::batch::{RunResult, Scenario, Stats};
use simcore::report::Violation;
use simcore::sched::{self, Abort};
use simcore::{Decisions, Fnv, Rng};
use std::sync::atomic::{AtomicBool, Ordering};
use std::sync::Mutex;

#[derive(Clone, Debug, Serialize, Deserialize, PartialEq, Eq, Hash)]
pub enum Op {
    Var(usize),
    Not(usize),
    And(usize, usize),
    Or(usize, usize),
    Imp(usize, usize),
    Iff(usize, usize),
    Xor(usize, usize),
    /// restrict(result[a], var, val)
    Restrict(usize, usize, bool),
    /// the documented repair step called on the live, streaming store (public API; it must
    /// not publish anything: no node is new)
    FixImport,
}

#[derive(Clone, Debug, Serialize, Deserialize, PartialEq, Eq, Hash)]
pub struct MirrorCase {
    pub nvars: usize,
    pub ops: Vec<Op>,
    /// requested handles of the relay's polls (`u64::MAX` = `usize::MAX`); None = no relay
    pub relay: Option<Vec<u64>>,
    pub recv: Vec<u64>,
    /// peer-drop fault: the receiver (resp. relay) store is dropped after this many polls
    pub drop_recv_after: Option<usize>,
    pub drop_relay_after: Option<usize>,
    /// capacity of the producer's channel (None = unbounded) and of the relay's channel
    #[serde(default)]
    pub cap1: Option<usize>,
    #[serde(default)]
    pub cap2: Option<usize>,
    /// after the operations the producer's store is wrapped into an `Adf` (statement i gets
    /// result handle `tail[i]`) and the semantics run on it: grounded, complete, stable — every
    /// node their restrictions create is streamed like any other
    #[serde(default)]
    pub semantics_tail: Option<Vec<usize>>,
    /// large backlog: before its operations the producer creates this many further variables
    /// (one node = one message each, numbered after the ordinary ones), and the polling stores
    /// start only when the producer is done — a single poll then meets the whole stream
    #[serde(default)]
    pub backlog: Option<usize>,
    /// late attachment: the producer performs this many operations before any channel exists;
    /// then a consumer is seeded with a snapshot of its node list (`Bdd::from(nodes)`, what the
    /// web service's database layer does), the channel is attached on both sides
    /// (`set_receiver` / `set_sender`) and the consumer follows from there, polling after every
    /// further operation
    #[serde(default)]
    pub snapshot_prelude: Option<usize>,
}

pub struct Mirror {
    pub property: &'static str,
}

fn apply(bdd: &mut Bdd, res: &[Term], op: &Op, nvars: usize) -> Term {
    let r = |i: &usize| res[*i % res.len()];
    match op {
        Op::Var(v) => bdd.variable(Var(*v % nvars)),
        Op::Not(a) => bdd.not(r(a)),
        Op::And(a, b) => bdd.and(r(a), r(b)),
        Op::Or(a, b) => bdd.or(r(a), r(b)),
        Op::Imp(a, b) => bdd.imp(r(a), r(b)),
        Op::Iff(a, b) => bdd.iff(r(a), r(b)),
        Op::Xor(a, b) => bdd.xor(r(a), r(b)),
        Op::Restrict(a, v, val) => bdd.restrict(r(a), Var(*v % nvars), *val),
        Op::FixImport => {
            bdd.fix_import();
            Term::BOT
        }
    }
}

/// Wrap the store into an ADF over `nvars` statements and run the semantics on it; returns the
/// store back together with a rendering of the answers.
fn semantics_tail(bdd: Bdd, res: &[Term], tail: &[usize], nvars: usize) -> (Bdd, String) {
    use adf_bdd::adf::Adf;
    use adf_bdd::datatypes::adf::VarContainer;
    use std::sync::{Arc, RwLock};
    let names: Vec<String> = (0..nvars).map(|i| format!("v{i}")).collect();
    let mapping: std::collections::HashMap<String, usize> = names.iter().enumerate().map(|(i, n)| (n.clone(), i)).collect();
    let vc = VarContainer::from_parser(Arc::new(RwLock::new(names)), Arc::new(RwLock::new(mapping)));
    let ac: Vec<Term> = (0..nvars).map(|i| res[tail.get(i).copied().unwrap_or(0) % res.len()]).collect();
    let mut adf = Adf::from((vc, bdd, ac));
    let g = adf.grounded();
    // the searches with their own stability check first: afterwards `stable()` finds most reduct
    // diagrams already built
    let sa: Vec<Vec<Term>> = adf.stable_count_optimisation_heu_a().collect();
    let sn: Vec<Vec<Term>> = adf.stable_nogood(adf_bdd::adf::heuristics::Heuristic::Simple).collect();
    let c: Vec<Vec<Term>> = adf.complete().collect();
    let st: Vec<Vec<Term>> = adf.stable().collect();
    let out = format!("{g:?} {c:?} {st:?} {sa:?} {sn:?}");
    (adf.bdd, out)
}

pub fn gen_ops(rng: &mut Rng, nvars: usize, n_ops: usize) -> Vec<Op> {
    let mut ops = Vec::new();
    for i in 0..n_ops {
        let have = (i + 2) as u64;
        let a = rng.below(have) as usize;
        let b = rng.below(have) as usize;
        // bias operands towards recent results so that diagrams grow
        let a = if rng.chance(1, 2) && i > 0 { i + 1 - rng.below(i.min(3) as u64) as usize } else { a };
        let op = if i > 1 && rng.chance(1, 30) {
            Op::FixImport
        } else if i < nvars.min(3) || rng.chance(1, 6) {
            Op::Var(rng.below(nvars as u64) as usize)
        } else {
            match rng.below(8) {
                0 => Op::Not(a),
                1 => Op::And(a, b),
                2 => Op::Or(a, b),
                3 => Op::Imp(a, b),
                4 => Op::Iff(a, b),
                5 => Op::Xor(a, b),
                6 => Op::Restrict(a, rng.below(nvars as u64) as usize, rng.chance(1, 2)),
                _ => Op::And(a, b),
            }
        };
        ops.push(op);
    }
    ops
}

fn gen_polls(rng: &mut Rng, max_polls: u64) -> Vec<u64> {
    let n = rng.range(1, max_polls);
    (0..n)
        .map(|_| match rng.below(10) {
            0 => rng.below(2),          // a constant
            1..=5 => rng.range(2, 14),  // small handle
            6 | 7 => rng.range(10, 60), // probably beyond the final table
            _ => u64::MAX,
        })
        .collect()
}

#[derive(Clone, Debug)]
struct PollRec {
    target: u64,
    found: bool,
    nodes: Vec<BddNode>,
    taken: u64,
    final_drain: bool,
}

#[derive(Default)]
struct ProducerOut {
    tail: String,
    results: Vec<Term>,
    lens: Vec<usize>,
    final_nodes: Vec<BddNode>,
    append_only_broken: Option<String>,
    self_poll_issue: Option<String>,
}

fn target_term(t: u64) -> Term {
    if t == u64::MAX {
        Term(usize::MAX)
    } else {
        Term(t as usize)
    }
}

impl Mirror {
    fn viol(&self, oracle: &str, class: &str, msg: String) -> Option<Violation> {
        Some(Violation::new(oracle, class, msg))
    }
}

impl Mirror {
    /// Late attachment (sequential: the schedule is the position of the attachment and the
    /// poll targets): producer works, consumer = snapshot of its node list, channel attached,
    /// producer goes on, consumer polls after every operation. At every poll the consumer's
    /// table is a prefix of the producer's, at the end both are identical and canonical.
    fn snapshot_follow(&self, case: &MirrorCase, k: usize, nvars: usize) -> Option<Violation> {
        let r = std::panic::catch_unwind(|| {
            let mut producer = Bdd::new();
            let mut res = vec![Term::BOT, Term::TOP];
            let k = k.min(case.ops.len());
            for op in &case.ops[..k] {
                let t = apply(&mut producer, &res, op, nvars);
                res.push(t);
            }
            let mut consumer = Bdd::from(producer.nodes.clone());
            if consumer.nodes != producer.nodes {
                return Some(("snapshot", "rebuild-differs", format!("Bdd::from(nodes) of a {}-entry table gave {} entries", producer.nodes.len(), consumer.nodes.len())));
            }
            let (s, r) = crossbeam_channel::unbounded::<BddNode>();
            consumer.set_receiver(r);
            producer.set_sender(s);
            for (i, op) in case.ops[k..].iter().enumerate() {
                let t = apply(&mut producer, &res, op, nvars);
                res.push(t);
                let target = case.recv.get(i % case.recv.len().max(1)).copied().unwrap_or(u64::MAX);
                let target = if target == u64::MAX { usize::MAX } else { target as usize };
                let found = consumer.recv(Term(target));
                let n = consumer.nodes.len();
                if n > producer.nodes.len() || consumer.nodes[..] != producer.nodes[..n] {
                    return Some(("prefix", "snapshot-consumer", format!("after operation {} ({op:?}) and recv({}): consumer {} is not a prefix of producer {}", k + i, target as i64, fmt_nodes(&consumer.nodes), fmt_nodes(&producer.nodes))));
                }
                if found != (target < n) {
                    return Some(("found-flag", "snapshot-consumer", format!("recv(Term({})) answered {found} with {n} nodes present", target as i64)));
                }
            }
            let _ = consumer.recv(Term(usize::MAX));
            if consumer.nodes != producer.nodes {
                return Some(("final-equality", "snapshot-consumer", format!("after draining: consumer {} vs producer {}", fmt_nodes(&consumer.nodes), fmt_nodes(&producer.nodes))));
            }
            if let Err((class, m)) = canon_check(&consumer.nodes) {
                return Some(("canonical-mirror", "snapshot-consumer", format!("{class}: {m}")));
            }
            None
        });
        match r {
            Ok(None) => None,
            Ok(Some((o, c, m))) => self.viol(o, c, format!("late attachment after {k} operations: {m}")),
            Err(p) => self.viol("no-panic", "snapshot-consumer", format!("late attachment after {k} operations: {}", simcore::panics::payload_to_string(p.as_ref()))),
        }
    }
}

impl Scenario for Mirror {
    type Case = MirrorCase;

    fn name(&self) -> &'static str {
        "mirror"
    }
    fn property(&self) -> &'static str {
        self.property
    }
    fn rule(&self) -> String {
        if self.property == "C19" {
            "case = producer operation sequence (1-12 ops, <=5 vars) + poll targets for relay/receiver + peer-drop points + channel kinds (unbounded / bounded 0..4 per hop); schedule = who runs at every channel operation (recorded decisions). Non-trivial: at least one poll ended on a cut strictly inside the stream (2 < mirror length < final producer length) or a peer drop fired mid-stream. Distinct = distinct (case hash, cut vector) pairs, cut vector = mirror length after every poll of every store".into()
        } else {
            "same world as C19; verdict = structural canonicity (reduced, ordered, duplicate-free, constants first) and same-handle<=>same-function of every live store after every producer operation and every poll. Non-trivial/distinct as for C19".into()
        }
    }

    fn generate(&self, rng: &mut Rng, thorough: bool) -> MirrorCase {
        let nvars = rng.range(1, 5) as usize;
        let n_ops = rng.range(1, if thorough { 14 } else { 12 }) as usize;
        let ops = gen_ops(rng, nvars, n_ops);
        let relay = if rng.chance(1, 2) {
            Some(gen_polls(rng, 8))
        } else {
            None
        };
        let recv = gen_polls(rng, 8);
        let drop_recv_after = if rng.chance(1, 8) {
            Some(rng.below(recv.len() as u64 + 1) as usize)
        } else {
            None
        };
        let drop_relay_after = match &relay {
            Some(p) if rng.chance(1, 10) => Some(rng.below(p.len() as u64 + 1) as usize),
            _ => None,
        };
        let cap = |rng: &mut Rng| -> Option<usize> {
            match rng.below(8) {
                0..=4 => None,
                5 => Some(0),
                6 => Some(1),
                _ => Some(rng.range(2, 4) as usize),
            }
        };
        let cap1 = cap(rng);
        let cap2 = cap(rng);
        let semantics_tail = if rng.chance(1, 3) {
            Some((0..nvars).map(|_| rng.below(ops.len() as u64 + 2) as usize).collect())
        } else {
            None
        };
        let backlog = if self.property == "C19" && rng.chance(1, 2500) {
            Some(*rng.pick(&[130usize, 300, 1030, 1100, 2100, 4200]))
        } else {
            None
        };
        let (mut relay, mut recv, mut cap1, mut cap2) = (relay, recv, cap1, cap2);
        if let Some(n) = backlog {
            // the pollers wait for the producer: a bounded channel would (rightly) block it for good
            cap1 = None;
            cap2 = None;
            let far = |rng: &mut Rng, polls: &mut Vec<u64>| {
                for t in polls.iter_mut() {
                    if rng.chance(1, 2) {
                        *t = rng.range(2, n as u64 + 8);
                    }
                }
            };
            far(rng, &mut recv);
            if let Some(r) = relay.as_mut() {
                far(rng, r);
            }
        }
        MirrorCase {
            nvars,
            ops,
            relay,
            recv,
            drop_recv_after,
            drop_relay_after,
            cap1,
            cap2,
            semantics_tail,
            backlog,
            // drawn last
            snapshot_prelude: if rng.chance(1, 8) { Some(rng.below(n_ops as u64 + 1) as usize) } else { None },
        }
    }

    fn execute(&self, case: &MirrorCase, dec: Decisions) -> RunResult {
        crossbeam_channel::sim_reset_ids();
        let mut stats = Stats::default();
        let nvars = case.nvars.max(1);
        let has_relay = case.relay.is_some();

        // reference execution: same operations on a store without any channel
        let mut ref_bdd = Bdd::new();
        let mut ref_res = vec![Term::BOT, Term::TOP];
        let backlog = case.backlog.unwrap_or(0);
        for i in 0..backlog {
            ref_bdd.variable(Var(nvars + i));
        }
        if backlog > 0 {
            stats.inc("runs_with_large_backlog");
        }
        for op in &case.ops {
            let t = apply(&mut ref_bdd, &ref_res, op, nvars);
            ref_res.push(t);
        }
        let mut ref_tail = String::new();
        if let Some(tail) = &case.semantics_tail {
            let (b, out) = semantics_tail(ref_bdd, &ref_res, tail, nvars);
            ref_bdd = b;
            ref_tail = out;
            stats.inc("runs_with_semantics_tail");
        }

        let mk = |cap: Option<usize>| match cap {
            None => crossbeam_channel::unbounded::<BddNode>(),
            Some(k) => crossbeam_channel::bounded::<BddNode>(k),
        };
        let (s1, r1) = mk(case.cap1);
        let p1 = r1.sim_probe();
        let (s2, r2) = mk(case.cap2);
        if case.cap1.is_some() || (has_relay && case.cap2.is_some()) {
            stats.inc("runs_with_bounded_channel");
        }
        let p2 = r2.sim_probe();

        let prod_out: Mutex<ProducerOut> = Mutex::new(ProducerOut::default());
        let relay_recs: Mutex<Vec<PollRec>> = Mutex::new(Vec::new());
        let recv_recs: Mutex<Vec<PollRec>> = Mutex::new(Vec::new());
        let prod_done = AtomicBool::new(false);
        let relay_done = AtomicBool::new(false);

        // start latch of the polling stores (backlog mode): closed when the producer is done
        let (latch_s, latch_r) = crossbeam_channel::bounded::<()>(1);
        let latch_r = if backlog > 0 { Some(latch_r) } else { None };
        let rebuild_check = self.property == "C06";
        let rebuild_issue: Mutex<Option<String>> = Mutex::new(None);
        let mut bodies: Vec<Box<dyn FnOnce() + Send + '_>> = Vec::new();
        // thread 0: producer
        {
            let prod_out = &prod_out;
            let prod_done = &prod_done;
            let ops = &case.ops;
            let semantics_tail_spec = case.semantics_tail.as_ref();
            bodies.push(Box::new(move || {
                struct Done<'a>(&'a AtomicBool);
                impl Drop for Done<'_> {
                    fn drop(&mut self) {
                        self.0.store(true, Ordering::SeqCst);
                    }
                }
                let _d = Done(prod_done);
                let _latch = latch_s; // dropped (= latch opened) after the store below
                let mut bdd = Bdd::with_sender(s1);
                let mut res = vec![Term::BOT, Term::TOP];
                for i in 0..backlog {
                    bdd.variable(Var(nvars + i));
                }
                let mut prev = bdd.nodes.clone();
                for op in ops {
                    let t = apply(&mut bdd, &res, op, nvars);
                    res.push(t);
                    let mut o = prod_out.lock().unwrap();
                    if bdd.nodes.len() < prev.len() || bdd.nodes[..prev.len()] != prev[..] {
                        o.append_only_broken = Some(format!("after {op:?}"));
                    }
                    o.lens.push(bdd.nodes.len());
                    prev = bdd.nodes.clone();
                }
                let mut tail_out = String::new();
                if let Some(tail) = semantics_tail_spec {
                    let (b, out) = semantics_tail(bdd, &res, tail, nvars);
                    bdd = b;
                    tail_out = out;
                    if bdd.nodes.len() < prev.len() || bdd.nodes[..prev.len()] != prev[..] {
                        prod_out.lock().unwrap().append_only_broken = Some("during the semantics tail".into());
                    }
                }
                // a store without a receiving end still answers polls from its own table
                let len = bdd.nodes.len();
                let mut self_poll_issue = None;
                for t in [0usize, 1, len / 2, len - 1, len, len + 3, usize::MAX] {
                    let found = bdd.recv(Term(t));
                    if found != (t < len) && self_poll_issue.is_none() {
                        self_poll_issue = Some(format!("producer store (no receiving end, {len} nodes): recv(Term({})) answered {found}", t as i64));
                    }
                }
                let mut o = prod_out.lock().unwrap();
                o.self_poll_issue = self_poll_issue;
                o.results = res;
                o.tail = tail_out;
                o.final_nodes = bdd.nodes.clone();
                // bdd (and with it the only sender) is dropped here
            }));
        }
        // poller body factory
        fn poller<'a>(
            make: Box<dyn FnOnce() -> Bdd + Send + 'a>,
            polls: &'a [u64],
            drop_after: Option<usize>,
            recs: &'a Mutex<Vec<PollRec>>,
            probe: crossbeam_channel::Probe<BddNode>,
            upstream_done: &'a AtomicBool,
            my_done: &'a AtomicBool,
            rebuild_check: bool,
            rebuild_issue: &'a Mutex<Option<String>>,
            latch: Option<crossbeam_channel::Receiver<()>>,
        ) -> Box<dyn FnOnce() + Send + 'a> {
            Box::new(move || {
                if let Some(l) = latch {
                    let _ = l.recv(); // returns once the producer has dropped its end
                }
                struct Done<'a>(&'a AtomicBool);
                impl Drop for Done<'_> {
                    fn drop(&mut self) {
                        self.0.store(true, Ordering::SeqCst);
                    }
                }
                let _d = Done(my_done);
                // declared after `_d`, hence dropped (channel ends closed) before the flag is set.
                // The store is created by its own thread, i.e. whenever the schedule first runs
                // it: the channel it is attached to may already hold nodes.
                let mut bdd = make();
                for (i, t) in polls.iter().enumerate() {
                    if drop_after == Some(i) {
                        return; // peer drop mid-stream
                    }
                    let found = bdd.recv(target_term(*t));
                    recs.lock().unwrap().push(PollRec {
                        target: *t,
                        found,
                        nodes: bdd.nodes.clone(),
                        taken: probe.taken(),
                        final_drain: false,
                    });
                }
                if drop_after == Some(polls.len()) {
                    return;
                }
                // drain: poll until the upstream is finished, then once more
                loop {
                    let done_before = upstream_done.load(Ordering::SeqCst);
                    let found = bdd.recv(Term(usize::MAX));
                    if done_before {
                        recs.lock().unwrap().push(PollRec {
                            target: u64::MAX,
                            found,
                            nodes: bdd.nodes.clone(),
                            taken: probe.taken(),
                            final_drain: true,
                        });
                        break;
                    }
                }
                if rebuild_check {
                    // no further recv will be called: the documentation allows building on the
                    // mirror now. Re-creating any node it holds must hand out the existing
                    // handle (same handle <=> same function) and must not grow the table.
                    let snapshot = bdd.nodes.clone();
                    for (i, n) in snapshot.iter().enumerate().skip(2) {
                        let t = bdd.node(n.var(), n.lo(), n.hi());
                        if t != Term(i) || bdd.nodes.len() != snapshot.len() {
                            *rebuild_issue.lock().unwrap() = Some(format!(
                                "re-creating entry {i} ({n}) on the drained mirror returned handle {} and the table has {} entries instead of {}",
                                t.value(),
                                bdd.nodes.len(),
                                snapshot.len()
                            ));
                            break;
                        }
                    }
                }
            })
        }
        let dummy_done = AtomicBool::new(false);
        if has_relay {
            bodies.push(poller(
                Box::new(move || Bdd::with_sender_receiver(s2, r1)),
                case.relay.as_ref().unwrap(),
                case.drop_relay_after,
                &relay_recs,
                p1,
                &prod_done,
                &relay_done,
                rebuild_check,
                &rebuild_issue,
                latch_r.clone(),
            ));
            bodies.push(poller(
                Box::new(move || Bdd::with_receiver(r2)),
                &case.recv,
                case.drop_recv_after,
                &recv_recs,
                p2,
                &relay_done,
                &dummy_done,
                rebuild_check,
                &rebuild_issue,
                latch_r.clone(),
            ));
        } else {
            drop(s2);
            drop(r2);
            bodies.push(poller(
                Box::new(move || Bdd::with_receiver(r1)),
                &case.recv,
                case.drop_recv_after,
                &recv_recs,
                p1,
                &prod_done,
                &dummy_done,
                rebuild_check,
                &rebuild_issue,
                latch_r.clone(),
            ));
        }

        let cfg = sched::Config {
            max_steps: 100_000,
            keep: (2, 3),
        };
        let out = sched::run(dec, &cfg, bodies);
        stats.add("sched_steps", out.steps);
        stats.add("blocked_waits", out.blocks);
        stats.add("context_switches", out.switches);
        stats.max("max_steps_per_run", out.steps);

        let prod = prod_out.into_inner().unwrap();
        let relay_recs = relay_recs.into_inner().unwrap();
        let recv_recs = recv_recs.into_inner().unwrap();
        let final_nodes = &prod.final_nodes;

        // ---- signature / log hash ----
        let mut sig = Fnv::new();
        let mut interior_cut = false;
        for (who, recs) in [(1u64, &relay_recs), (2u64, &recv_recs)] {
            sig.u64(who);
            for r in recs.iter() {
                sig.u64(r.nodes.len() as u64).u64(r.found as u64);
                if r.nodes.len() > 2 && r.nodes.len() < final_nodes.len() {
                    interior_cut = true;
                }
            }
        }
        let mut lh = Fnv::new();
        lh.u64(out.log_signature()).u64(sig.finish());
        for n in final_nodes {
            lh.u64(n.var().value() as u64).u64(n.lo().value() as u64).u64(n.hi().value() as u64);
        }
        let peer_drop_fired = (case.drop_recv_after.is_some() || case.drop_relay_after.is_some())
            && out.log.iter().any(|e| e.what.contains("-> disconnected"));
        if peer_drop_fired {
            stats.inc("fault_peer_drop_midstream_fired");
        }
        if case.drop_recv_after.is_some() || case.drop_relay_after.is_some() {
            stats.inc("fault_peer_drop_configured");
        }
        if interior_cut {
            stats.inc("runs_with_interior_cut");
        }
        stats.add("polls", (relay_recs.len() + recv_recs.len()) as u64);
        stats.add("messages_sent", final_nodes.len().saturating_sub(2) as u64);
        if has_relay {
            stats.inc("runs_with_relay");
        }
        let nontrivial = interior_cut || peer_drop_fired;
        let decisions = out.decisions.values();
        let mk = |violation: Option<Violation>, stats: Stats| RunResult {
            violation,
            decisions: decisions.clone(),
            signature: sig.finish(),
            log_hash: lh.finish(),
            nontrivial,
            stats,
        };

        // ---- verdicts ----
        let c19 = self.property == "C19";
        if let Some(k) = case.snapshot_prelude {
            stats.inc("late_attachments_on_a_snapshot");
            if let Some(v) = self.snapshot_follow(case, k, nvars) {
                return mk(Some(v), stats);
            }
        }
        if let Some(a) = &out.abort {
            let v = match a {
                Abort::Deadlock(b) => self.viol("liveness", "deadlock", format!("all threads blocked: {b:?}")),
                Abort::StepLimit(n) => self.viol("liveness", "step-limit", format!("{n} scheduling steps without finishing")),
            };
            return mk(v, stats);
        }
        for tid in 0..out.threads.len() {
            if let Some(m) = out.thread_panic_message(tid) {
                let who = ["producer", if has_relay { "relay" } else { "receiver" }, "receiver"][tid];
                return mk(self.viol("no-panic", who, m), stats);
            }
        }
        if c19 {
            if let Some(m) = &prod.append_only_broken {
                return mk(self.viol("producer", "table-not-append-only", m.clone()), stats);
            }
            if let Some(m) = &prod.self_poll_issue {
                return mk(self.viol("found-flag", "store-without-receiver", m.clone()), stats);
            }
            // producer unaffected by streaming / peer drop: identical to the channel-less twin
            if prod.results != ref_res || *final_nodes != ref_bdd.nodes || prod.tail != ref_tail {
                return mk(
                    self.viol(
                        "producer",
                        "differs-from-unstreamed-twin",
                        format!("results {:?} vs {:?}; table len {} vs {}", prod.results, ref_res, final_nodes.len(), ref_bdd.nodes.len()),
                    ),
                    stats,
                );
            }
        }
        let relay_final_len = relay_recs.last().map(|r| r.nodes.len());
        for (name, recs, drop_after, upstream_dropped) in [
            ("relay", &relay_recs, case.drop_relay_after, false),
            ("receiver", &recv_recs, case.drop_recv_after, has_relay && case.drop_relay_after.is_some()),
        ] {
            for (i, r) in recs.iter().enumerate() {
                if c19 {
                    let k = r.nodes.len();
                    if k < 2 || k > final_nodes.len() || r.nodes[..] != final_nodes[..k] {
                        return mk(
                            self.viol("prefix", name, format!("poll {i} (target {}): mirror {} is not a prefix of producer table {}", r.target as i64, fmt_nodes(&r.nodes), fmt_nodes(final_nodes))),
                            stats,
                        );
                    }
                    if r.taken + 2 != k as u64 {
                        return mk(
                            self.viol("consumed-count", name, format!("poll {i}: consumed {} messages but holds {} nodes", r.taken, k)),
                            stats,
                        );
                    }
                    let present = r.target != u64::MAX && (r.target as usize) < k;
                    if r.found != present {
                        return mk(
                            self.viol("found-flag", name, format!("poll {i}: recv(Term({})) answered {} with {} nodes present", r.target as i64, r.found, k)),
                            stats,
                        );
                    }
                    if r.final_drain {
                        // the upstream is finished and the channel drained
                        let expect = if upstream_dropped {
                            // a relay that was dropped mid-stream forwarded only a prefix
                            None
                        } else {
                            Some(final_nodes.len())
                        };
                        if let Some(e) = expect {
                            if k != e {
                                return mk(
                                    self.viol("final-equality", name, format!("after producer finished and channel drained: {} nodes, producer has {}", k, e)),
                                    stats,
                                );
                            }
                        }
                    }
                } else {
                    // C06: structural canonicity + same handle <=> same function on the mirror
                    if let Err((class, m)) = canon_check(&r.nodes) {
                        return mk(self.viol("canonical-mirror", &class, format!("{name} after poll {i}: {m}")), stats);
                    }
                    if let Some(v) = handle_function_bijection(&r.nodes, nvars) {
                        return mk(self.viol("canonical-mirror", "handle-function", format!("{name} after poll {i}: {v}")), stats);
                    }
                }
            }
            let _ = drop_after;
        }
        let _ = relay_final_len;
        if !c19 {
            if let Some(m) = rebuild_issue.into_inner().unwrap() {
                return mk(self.viol("canonical-mirror", "unique-table-incomplete", m), stats);
            }
            if let Err((class, m)) = canon_check(final_nodes) {
                return mk(self.viol("canonical-producer", &class, m), stats);
            }
            if let Some(v) = handle_function_bijection(final_nodes, nvars) {
                return mk(self.viol("canonical-producer", "handle-function", v), stats);
            }
        }
        mk(None, stats)
    }

    fn simplify(&self, c: &MirrorCase) -> Vec<MirrorCase> {
        let mut out = Vec::new();
        if c.relay.is_some() {
            let mut d = c.clone();
            d.relay = None;
            d.drop_relay_after = None;
            out.push(d);
        }
        if c.cap1.is_some() || c.cap2.is_some() {
            let mut d = c.clone();
            d.cap1 = None;
            d.cap2 = None;
            out.push(d);
        }
        if c.semantics_tail.is_some() {
            let mut d = c.clone();
            d.semantics_tail = None;
            out.push(d);
        }
        if let Some(b) = c.backlog {
            let mut d = c.clone();
            d.backlog = if b > 8 { Some(b / 2) } else { None };
            out.push(d);
        }
        if c.drop_recv_after.is_some() {
            let mut d = c.clone();
            d.drop_recv_after = None;
            out.push(d);
        }
        if c.drop_relay_after.is_some() {
            let mut d = c.clone();
            d.drop_relay_after = None;
            out.push(d);
        }
        for i in (0..c.ops.len()).rev() {
            let mut d = c.clone();
            d.ops.remove(i);
            // operand indices above the removed result shift down
            for op in d.ops.iter_mut().skip(i) {
                let fix = |x: &mut usize| {
                    if *x > i + 1 {
                        *x -= 1
                    }
                };
                match op {
                    Op::Var(_) | Op::FixImport => {}
                    Op::Not(a) | Op::Restrict(a, _, _) => fix(a),
                    Op::And(a, b) | Op::Or(a, b) | Op::Imp(a, b) | Op::Iff(a, b) | Op::Xor(a, b) => {
                        fix(a);
                        fix(b)
                    }
                }
            }
            out.push(d);
        }
        for i in (0..c.recv.len()).rev() {
            if c.recv.len() > 1 {
                let mut d = c.clone();
                d.recv.remove(i);
                out.push(d);
            }
        }
        if let Some(r) = &c.relay {
            for i in (0..r.len()).rev() {
                if r.len() > 1 {
                    let mut d = c.clone();
                    d.relay.as_mut().unwrap().remove(i);
                    out.push(d);
                }
            }
        }
        for i in 0..c.recv.len() {
            if c.recv[i] != u64::MAX && c.recv[i] > 2 {
                let mut d = c.clone();
                d.recv[i] -= 1;
                out.push(d);
            }
        }
        out
    }

    fn components(&self) -> serde_json::Value {
        serde_json::json!({
            "real": ["adf_bdd::obdd::Bdd (all operations, node(), recv(), with_sender/with_receiver/with_sender_receiver) compiled from /repo/lib/src", "std threads (one per store)"],
            "stub": ["crossbeam-channel (sim shim: FIFO MPMC queue, every operation a scheduling point)", "thread scheduling (baton scheduler)"],
        })
    }
}

/// On a table: every two distinct handles denote distinct functions (same function => same
/// handle), and handles 0/1 are exactly the constant functions.
pub fn handle_function_bijection(nodes: &[BddNode], nvars: usize) -> Option<String> {
    let mut seen: std::collections::BTreeMap<u64, usize> = std::collections::BTreeMap::new();
    for i in 0..nodes.len() {
        let t = match tt(nodes, Term(i), nvars.min(6)) {
            Ok(t) => t,
            Err(e) => return Some(e),
        };
        if let Some(j) = seen.insert(t, i) {
            return Some(format!("handles {j} and {i} denote the same function {t:#x}"));
        }
    }
    None
}
