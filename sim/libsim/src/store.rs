//! Long histories on one diagram store (parts of C06 and C11).
//!
//! The `history` scenario keeps ADFs small so that every handle can be tabulated; what it cannot
//! reach is anything that depends on *how much* has happened on a store: tens of thousands of
//! memoised results, counters that wrap, variable indices far apart. Here one `Bdd` lives
//! through 50 - 70 000 operations over 3 - 16 variables (optionally at indices 65 536 or 2^32
//! apart, order preserved), and
//!
//! * every result is judged semantically on 32 sampled assignments by walking the public node
//!   table: the result of `and(a, b)` must evaluate to `a && b`, of `restrict(a, v, c)` to `a`
//!   under `v := c`, … — whatever was computed on the store before (cache transparency, C11;
//!   "same handle for another function" under prior cache contents, C06);
//! * the table must stay reduced, ordered and duplicate-free (structural check after every block
//!   and at the end, C06) and append-only (C11, handle stability).
//!
//! There is no second thread here; the simulator owns the order and number of calls (the
//! history is the schedule). Blocks of random operations are stored as (seed, count) so that a
//! replay file stays small.

use crate::common::canon_check;
use adf_bdd::datatypes::{BddNode, Term, Var};
use adf_bdd::obdd::Bdd;
use serde::{Deserialize, Serialize};
use simcore::batch::{RunResult, Scenario, Stats};
use simcore::report::Violation;
use simcore::{Decisions, Fnv, Rng};

#[derive(Clone, Debug, Serialize, Deserialize, PartialEq, Eq, Hash)]
pub enum SOp {
    /// `count` random operations (variables, connectives, restrictions, mostly on recent results)
    Block { seed: u64, count: u32 },
    /// restrict result `a` by variable `v` to `val`
    Restrict { a: usize, v: usize, val: bool },
    /// `count` restrictions that alternate over the support of result `target` (a diagram the
    /// other operations leave alone), i.e. many calls that touch none of the other diagrams
    Storm { target: usize, count: u32 },
}

#[derive(Clone, Debug, Serialize, Deserialize, PartialEq, Eq, Hash)]
pub struct StoreCase {
    pub nvars: usize,
    /// 0: variables 0..n; 1: 65 536 apart; 2: 2^32 apart (order preserved)
    pub far: u8,
    pub ops: Vec<SOp>,
}

pub struct Store {
    pub property: &'static str,
}

const SAMPLES: usize = 32;

struct Ctx {
    bdd: Bdd,
    nvars: usize,
    far: u8,
    /// results so far (handles) and their expected value under each sampled assignment
    res: Vec<Term>,
    sig: Vec<u32>,
    samples: [u32; SAMPLES],
    ops_done: u64,
}

fn vmap(far: u8, i: usize) -> usize {
    match far {
        0 => i,
        1 => i * 65_536 + (i % 3),
        _ => i << 32,
    }
}

fn vinv(far: u8, v: usize) -> usize {
    match far {
        0 => v,
        1 => v / 65_536,
        _ => v >> 32,
    }
}

impl Ctx {
    fn eval(&self, t: Term, w: u32) -> Result<bool, String> {
        let nodes = &self.bdd.nodes;
        let mut cur = t.value();
        for _ in 0..=nodes.len() {
            if cur == 0 {
                return Ok(false);
            }
            if cur == 1 {
                return Ok(true);
            }
            let Some(n) = nodes.get(cur) else {
                return Err(format!("handle {cur} outside the table (len {})", nodes.len()));
            };
            let v = vinv(self.far, n.var().value());
            if v >= self.nvars || vmap(self.far, v) != n.var().value() {
                return Err(format!("node {cur} tests variable {} which was never created", n.var().value()));
            }
            cur = if (w >> v) & 1 == 1 { n.hi().value() } else { n.lo().value() };
        }
        Err(format!("walk from {} does not reach a leaf", t.value()))
    }

    fn sig_of(&self, t: Term) -> Result<u32, String> {
        let mut s = 0u32;
        for (j, w) in self.samples.iter().enumerate() {
            if self.eval(t, *w)? {
                s |= 1 << j;
            }
        }
        Ok(s)
    }

    /// record a result; `want` = expected signature
    fn push(&mut self, what: &str, t: Term, want: u32) -> Result<(), (String, String)> {
        self.ops_done += 1;
        let got = self.sig_of(t).map_err(|e| ("table-walk".to_string(), format!("operation {} ({what}): {e}", self.ops_done)))?;
        if got != want {
            return Err((
                "wrong-function".to_string(),
                format!("operation {} ({what}) returned handle {} which evaluates to {got:#010x} on the 32 sampled assignments, the definition gives {want:#010x}; table has {} entries", self.ops_done, t.value(), self.bdd.nodes.len()),
            ));
        }
        self.res.push(t);
        self.sig.push(want);
        Ok(())
    }

    /// the variables (0..nvars) a diagram depends on, read off the public node table
    fn support(&self, t: Term) -> Vec<usize> {
        let mut seen = std::collections::BTreeSet::new();
        let mut vars = std::collections::BTreeSet::new();
        let mut todo = vec![t.value()];
        while let Some(x) = todo.pop() {
            if x < 2 || !seen.insert(x) {
                continue;
            }
            if let Some(n) = self.bdd.nodes.get(x) {
                vars.insert(vinv(self.far, n.var().value()));
                todo.push(n.lo().value());
                todo.push(n.hi().value());
            }
        }
        vars.into_iter().filter(|v| *v < self.nvars).collect()
    }

    /// `by_support`: `v` indexes the operand's support (so that the call is never trivial)
    fn restrict(&mut self, a: usize, v: usize, val: bool, by_support: bool) -> Result<(), (String, String)> {
        let a = a % self.res.len();
        let t = self.res[a];
        let sup = if by_support { self.support(t) } else { Vec::new() };
        let v = if sup.is_empty() { v % self.nvars } else { sup[v % sup.len()] };
        // expected: the operand under v := val
        let mut want = 0u32;
        for (j, w) in self.samples.iter().enumerate() {
            let w2 = if val { *w | (1 << v) } else { *w & !(1 << v) };
            match self.eval(t, w2) {
                Ok(true) => want |= 1 << j,
                Ok(false) => {}
                Err(e) => return Err(("table-walk".into(), e)),
            }
        }
        let r = self.bdd.restrict(t, Var(vmap(self.far, v)), val);
        self.push(&format!("restrict(#{a}=handle {}, v{v}, {val})", t.value()), r, want)
    }

    fn random_op(&mut self, rng: &mut Rng) -> Result<(), (String, String)> {
        let n = self.res.len();
        let pick = |rng: &mut Rng| -> usize {
            if n > 8 && rng.chance(3, 4) {
                n - 1 - rng.below(8) as usize
            } else {
                rng.below(n as u64) as usize
            }
        };
        let (a, b) = (pick(rng), pick(rng));
        let (ta, tb, sa, sb) = (self.res[a], self.res[b], self.sig[a], self.sig[b]);
        match rng.below(12) {
            0 => {
                let v = rng.below(self.nvars as u64) as usize;
                let t = self.bdd.variable(Var(vmap(self.far, v)));
                let mut want = 0u32;
                for (j, w) in self.samples.iter().enumerate() {
                    if (w >> v) & 1 == 1 {
                        want |= 1 << j;
                    }
                }
                self.push(&format!("variable(v{v})"), t, want)
            }
            1 => {
                let t = self.bdd.not(ta);
                self.push(&format!("not(#{a})"), t, !sa)
            }
            2 | 3 => {
                let t = self.bdd.and(ta, tb);
                self.push(&format!("and(#{a},#{b})"), t, sa & sb)
            }
            4 | 5 => {
                let t = self.bdd.or(ta, tb);
                self.push(&format!("or(#{a},#{b})"), t, sa | sb)
            }
            6 | 7 => {
                let t = self.bdd.xor(ta, tb);
                self.push(&format!("xor(#{a},#{b})"), t, sa ^ sb)
            }
            8 => {
                let t = self.bdd.iff(ta, tb);
                self.push(&format!("iff(#{a},#{b})"), t, !(sa ^ sb))
            }
            9 => {
                let t = self.bdd.imp(ta, tb);
                self.push(&format!("imp(#{a},#{b})"), t, !sa | sb)
            }
            _ => {
                let v = rng.below(self.nvars as u64) as usize;
                self.restrict(a, v, rng.chance(1, 2), false)
            }
        }
    }
}

impl Store {
    fn run(&self, case: &StoreCase, stats: &mut Stats, log: &mut Fnv) -> Result<(), (String, String)> {
        let nvars = case.nvars.clamp(1, 16);
        let mut srng = Rng::new(0x5a17_e5 ^ nvars as u64);
        let mut samples = [0u32; SAMPLES];
        for (j, s) in samples.iter_mut().enumerate() {
            *s = match j {
                0 => 0,
                1 => u32::MAX,
                _ => srng.next_u64() as u32,
            };
        }
        let mut c = Ctx { bdd: Bdd::new(), nvars, far: case.far.min(2), res: vec![Term::BOT, Term::TOP], sig: vec![0, u32::MAX], samples, ops_done: 0 };
        // a diagram of its own for the storms: the last two variables (nothing else is asked of it)
        let mut prev_len = c.bdd.nodes.len();
        let mut prev_tail: Vec<BddNode> = c.bdd.nodes.clone();
        for (i, op) in case.ops.iter().enumerate() {
            match op {
                SOp::Block { seed, count } => {
                    let mut rng = Rng::new(*seed);
                    for _ in 0..*count {
                        c.random_op(&mut rng)?;
                    }
                }
                SOp::Restrict { a, v, val } => c.restrict(*a, *v, *val, true)?,
                SOp::Storm { target, count } => {
                    // the most recent diagram with a non-empty support at or before `target`
                    let mut idx = *target % c.res.len();
                    while idx > 1 && c.support(c.res[idx]).is_empty() {
                        idx -= 1;
                    }
                    let t = c.res[idx];
                    let sup = c.support(t);
                    if !sup.is_empty() {
                        for k in 0..*count as usize {
                            let v = sup[k % sup.len()];
                            let _ = c.bdd.restrict(t, Var(vmap(c.far, v)), (k / sup.len()) % 2 == 0);
                        }
                        c.ops_done += *count as u64;
                        stats.add("storm_restrictions", *count as u64);
                    }
                }
            }
            // append-only table, structurally canonical
            if c.bdd.nodes.len() < prev_len || c.bdd.nodes[..prev_len] != prev_tail[..] {
                return Err(("table-not-append-only".into(), format!("after step {i} ({op:?}) an earlier entry of the node table changed or disappeared")));
            }
            prev_len = c.bdd.nodes.len();
            prev_tail = c.bdd.nodes.clone();
            if let Err((class, m)) = canon_check(&c.bdd.nodes) {
                return Err((format!("canonical/{class}"), format!("after step {i} ({op:?}, {} operations so far, {} entries): {m}", c.ops_done, c.bdd.nodes.len())));
            }
        }
        // every result issued so far still denotes its function (handle stability)
        for k in 0..c.res.len() {
            let got = c.sig_of(c.res[k]).map_err(|e| ("table-walk".to_string(), e))?;
            if got != c.sig[k] {
                return Err(("handle-changed".into(), format!("result #{k} (handle {}) evaluated to {:#010x} when issued and to {got:#010x} at the end", c.res[k].value(), c.sig[k])));
            }
        }
        stats.add("operations", c.ops_done);
        stats.max("max_operations_per_run", c.ops_done);
        stats.max("max_table_entries", c.bdd.nodes.len() as u64);
        if case.far > 0 {
            stats.inc("runs_with_far_variable_indices");
        }
        log.u64(c.bdd.nodes.len() as u64).u64(c.ops_done);
        for t in c.res.iter().rev().take(16) {
            log.u64(t.value() as u64);
        }
        Ok(())
    }
}

impl Scenario for Store {
    type Case = StoreCase;
    fn name(&self) -> &'static str {
        "store"
    }
    fn property(&self) -> &'static str {
        self.property
    }
    fn rule(&self) -> String {
        "case = one diagram store over 3-16 variables (indices adjacent, 65 536 apart or 2^32 apart) living through blocks of random operations (50-300, sometimes 1 000-4 000: enough for tens of thousands of memoised results), single restrictions and storms of restrictions on one diagram (200, or 65 530-65 540 and 131 065-131 075: counter boundaries). Verdicts: every result evaluates as its definition demands on 32 sampled assignments (walk over the public node table), the table stays append-only and structurally canonical after every step, every issued handle still denotes its function at the end. Non-trivial: more than 100 operations preceded the last judged result. Distinct = distinct case hashes (the history is the schedule)".into()
    }
    fn generate(&self, rng: &mut Rng, thorough: bool) -> StoreCase {
        let nvars = *rng.pick(&[3usize, 4, 6, 8, 12, 16, 16]);
        let far = match rng.below(6) {
            0 => 1,
            1 => 2,
            _ => 0,
        };
        let mut ops = Vec::new();
        let kind = rng.below(if thorough { 40 } else { 120 });
        ops.push(SOp::Block { seed: rng.next_u64(), count: rng.range(10, 60) as u32 });
        match kind {
            0 | 1 => {
                // counter boundaries: a restriction, then a storm on another diagram, then
                // another restriction of the first diagram
                let a = rng.below(30) as usize + 2;
                let v = rng.below(nvars as u64) as usize;
                ops.push(SOp::Restrict { a, v, val: rng.chance(1, 2) });
                let count = if rng.chance(1, 4) { rng.range(131_065, 131_075) } else { rng.range(65_530, 65_540) } as u32;
                ops.push(SOp::Storm { target: rng.below(30) as usize + 2, count });
                for _ in 0..rng.range(1, 4) {
                    ops.push(SOp::Restrict { a, v: rng.below(nvars as u64) as usize, val: rng.chance(1, 2) });
                }
            }
            2 | 3 | 4 => {
                // many memoised results
                ops.push(SOp::Block { seed: rng.next_u64(), count: rng.range(1_000, if thorough { 6_000 } else { 4_000 }) as u32 });
                ops.push(SOp::Block { seed: rng.next_u64(), count: rng.range(20, 100) as u32 });
            }
            _ => {
                for _ in 0..rng.range(1, 3) {
                    if rng.chance(1, 5) {
                        ops.push(SOp::Storm { target: rng.below(30) as usize + 2, count: rng.range(50, 300) as u32 });
                    }
                    ops.push(SOp::Block { seed: rng.next_u64(), count: rng.range(20, 300) as u32 });
                }
            }
        }
        StoreCase { nvars, far, ops }
    }
    fn execute(&self, case: &StoreCase, dec: Decisions) -> RunResult {
        let mut stats = Stats::default();
        let mut log = Fnv::new();
        let r = std::panic::catch_unwind(std::panic::AssertUnwindSafe(|| self.run(case, &mut stats, &mut log)));
        let ctx = format!("[{} variables, far={}, {:?}]", case.nvars, case.far, case.ops);
        let violation = match r {
            Ok(Ok(())) => None,
            Ok(Err((class, m))) => Some(Violation::new("long-history", &class, format!("{m} {ctx}"))),
            Err(p) => {
                let m = p.downcast_ref::<String>().cloned().or_else(|| p.downcast_ref::<&str>().map(|s| s.to_string())).unwrap_or_else(|| "panic".into());
                Some(Violation::new("no-panic", "store", format!("panic: {m} {ctx}")))
            }
        };
        let total: u64 = case.ops.iter().map(|o| match o {
            SOp::Block { count, .. } | SOp::Storm { count, .. } => *count as u64,
            SOp::Restrict { .. } => 1,
        }).sum();
        RunResult { violation, decisions: dec.values(), signature: simcore::batch::case_hash(case), log_hash: log.finish(), nontrivial: total > 100, stats }
    }
    fn simplify(&self, c: &StoreCase) -> Vec<StoreCase> {
        let mut out = Vec::new();
        for i in (0..c.ops.len()).rev() {
            if c.ops.len() > 1 {
                let mut d = c.clone();
                d.ops.remove(i);
                out.push(d);
            }
        }
        for i in 0..c.ops.len() {
            match &c.ops[i] {
                SOp::Block { seed, count } if *count > 1 => {
                    let mut d = c.clone();
                    d.ops[i] = SOp::Block { seed: *seed, count: count / 2 };
                    out.push(d);
                    let mut d = c.clone();
                    d.ops[i] = SOp::Block { seed: *seed, count: count - 1 };
                    out.push(d);
                }
                SOp::Storm { target, count } if *count > 1 => {
                    let mut d = c.clone();
                    d.ops[i] = SOp::Storm { target: *target, count: count / 2 };
                    out.push(d);
                }
                _ => {}
            }
        }
        if c.far > 0 {
            let mut d = c.clone();
            d.far = 0;
            out.push(d);
        }
        out
    }
    fn components(&self) -> serde_json::Value {
        serde_json::json!({
            "real": ["adf_bdd::obdd::Bdd (variable, not, and, or, xor, iff, imp, restrict) from /repo/lib/src"],
            "stub": ["none (the evaluation oracle walks the public node table)"],
        })
    }
}
