//! The history engine: one long-lived `Adf` object and a generated sequence of public API
//! calls. Three configurations share it:
//!
//! * **C11** (fault-free): every answer equals the answer of a *fresh twin* asked only that
//!   question; issued handles keep their function; the whole plan executed on two independently
//!   built objects (different SipHash keys in every map) yields identical logs, raw handles
//!   included.
//! * **C14** (restart injection): `RestartJson` / `RestartDb` may be drawn at any point, any
//!   number of times — only the serialised state survives. Right after a restart `nodes` and
//!   `ac` are identical; from then on every answer equals that of a never-restarted twin.
//! * **C06** (restart injection + bridged starts): the store stays reduced, ordered, duplicate
//!   free with same-handle <=> same-function after every step, including everything built after
//!   a recovery.

use crate::common::{build_adf, canon_check, term_to_v, tt, tt_mask, tt_restrict, tt_var, Build};
use crate::mirror::handle_function_bijection;
use adf_bdd::adf::heuristics::Heuristic;
use adf_bdd::adf::Adf;
use adf_bdd::datatypes::adf::VarContainer;
use adf_bdd::datatypes::{Term, Var};
use adf_bdd::obdd::Bdd;
use refsem::{AdfSpec, V};
use serde::{Deserialize, Serialize};
use simcore::batch::{RunResult, Scenario, Stats};
use simcore::report::Violation;
use simcore::{Decisions, Fnv, Rng};
use std::sync::{Arc, RwLock};

#[derive(Clone, Copy, Debug, Serialize, Deserialize, PartialEq, Eq, Hash)]
pub enum Ref {
    Const(bool),
    Ac(usize),
    /// result of the j-th `Extra` step of the history
    Extra(usize),
}

#[derive(Clone, Copy, Debug, Serialize, Deserialize, PartialEq, Eq, Hash)]
pub enum XOp {
    Var(usize),
    Not(Ref),
    And(Ref, Ref),
    Or(Ref, Ref),
    Imp(Ref, Ref),
    Iff(Ref, Ref),
    Xor(Ref, Ref),
    Restrict(Ref, usize, bool),
}

#[derive(Clone, Copy, Debug, Serialize, Deserialize, PartialEq, Eq, Hash)]
pub enum HeuK {
    Simple,
    MinPaths,
    MaxVarImp,
    Rand([u8; 32]),
    /// `seed(bytes)`, then the documented repair step `fix_import()` (harmless on a live object),
    /// then the Rand search: the seed must survive whatever is called between seeding and searching
    RandAfterFixImport([u8; 32]),
}

#[derive(Clone, Copy, Debug, Serialize, Deserialize, PartialEq, Eq, Hash)]
pub enum Step {
    Grounded,
    Complete,
    Stable,
    StablePrefilter,
    /// `stable_bdd_representation(&biodivine)`: the single-formula rewriting of the hybrid route
    /// (bridged builds only; on a native object the step is `stable()`). It goes straight to reducts without
    /// computing the grounded interpretation first.
    StableRewrite,
    StableCountA,
    StableCountB,
    Nogood(HeuK),
    TwoValNogood(HeuK),
    FormulaCountsNaive,
    /// the grounded interpretation rendered with statement names (`print_interpretation`) and
    /// the dictionary itself: the shared name container must not change under computations
    PrintGrounded,
    FacetCountAc,
    FacetCountGrounded,
    Paths(Ref),
    MaxDepth(Ref),
    VarDeps(Ref),
    PassiveImpact(usize),
    ActiveImpact(usize),
    /// `bdd.interpretations(handle, goal, goal_var, &[], &[])`: the path cubes towards a goal value
    Cubes(Ref, bool, usize),
    Extra(XOp),
    RestartJson,
    RestartDb,
    /// only the diagram store goes through JSON (`Bdd` export -> import -> `Bdd::fix_import`),
    /// the ADF is re-assembled around it with `Adf::from((ordering, bdd, ac))`
    RestartBddJson,
    /// take only the first k models of the lazy enumeration, then drop the iterator
    CompleteTake(usize),
    StableTake(usize),
    /// the documented repair step called on a live object (it is public API; it must be
    /// harmless there)
    FixImport,
    /// exchange two entries of the public `ac` field: the object is then another well-formed
    /// ADF (statement i has j's condition and vice versa) and must answer like a fresh object
    /// built from that ADF - whatever it memoised about itself before
    SwapAc(usize, usize),
    /// `formulacounts(true)`: memoised counting, whose numbers are the documented exception
    /// under default features and are not judged - but asking must not change later answers
    FormulaCountsMemo,
}

#[derive(Clone, Debug, Serialize, Deserialize, PartialEq, Eq, Hash)]
pub struct HistCase {
    pub spec: AdfSpec,
    pub build: Build,
    pub steps: Vec<Step>,
}

pub struct History {
    pub property: &'static str,
}

struct Obj {
    adf: Adf,
    /// the biodivine object a bridged build came from (`stable_bdd_representation` wants it)
    bio: Option<adf_bdd::adfbiodivine::Adf>,
    n: usize,
    extras: Vec<Term>,
    /// (handle, function at issue time) of everything handed out so far
    issued: Vec<(Term, u64)>,
}

#[derive(Clone, Debug, PartialEq, Eq)]
struct Answer {
    /// handle-number free rendering (functions as truth tables)
    sem: String,
    /// rendering with raw handle numbers
    raw: String,
}

fn heuristic(adf: &mut Adf, h: HeuK) -> Heuristic<'static> {
    match h {
        HeuK::Simple => Heuristic::Simple,
        HeuK::MinPaths => Heuristic::MinModMinPathsMaxVarImp,
        HeuK::MaxVarImp => Heuristic::MinModMaxVarImpMinPaths,
        HeuK::Rand(seed) => {
            adf.seed(seed);
            Heuristic::Rand
        }
        HeuK::RandAfterFixImport(seed) => {
            adf.seed(seed);
            adf.fix_import();
            Heuristic::Rand
        }
    }
}

impl Obj {
    fn fresh(spec: &AdfSpec, build: Build) -> Result<Obj, String> {
        let adf = build_adf(spec, build)?;
        let bio = if build == Build::Native { None } else { Some(crate::common::build_bio(spec)?) };
        let n = spec.n();
        let mut o = Obj {
            adf,
            bio,
            n,
            extras: Vec::new(),
            issued: Vec::new(),
        };
        for i in 0..n {
            let t = o.adf.ac[i];
            o.issue(t)?;
        }
        Ok(o)
    }

    /// truth table of a handle; for large instances (more than 6 statements) functions are not
    /// tabulated and every handle reads as 0 — those histories are judged by raw handles and
    /// T/F/u patterns against the never-restarted twin
    fn tt(&self, t: Term) -> Result<u64, String> {
        if self.n > 6 {
            return Ok(0);
        }
        tt(&self.adf.bdd.nodes, t, self.n)
    }

    fn issue(&mut self, t: Term) -> Result<(), String> {
        let f = self.tt(t)?;
        if !self.issued.iter().any(|(h, _)| *h == t) {
            self.issued.push((t, f));
        }
        Ok(())
    }

    fn resolve(&self, r: Ref) -> Term {
        match r {
            Ref::Const(b) => Term::from(b),
            Ref::Ac(i) => self.adf.ac[i % self.n],
            Ref::Extra(j) => {
                if self.extras.is_empty() {
                    self.adf.ac[j % self.n]
                } else {
                    self.extras[j % self.extras.len()]
                }
            }
        }
    }

    fn interps(&mut self, list: Vec<Vec<Term>>) -> Result<Answer, String> {
        let mut sem = String::new();
        let mut raw = String::new();
        for m in &list {
            for t in m {
                match term_to_v(t) {
                    V::T => sem.push('T'),
                    V::F => sem.push('F'),
                    V::U if self.n > 6 => sem.push_str(&format!("u@{}.", t.value())),
                    V::U => sem.push_str(&format!("u{:x}.", self.tt(*t)?)),
                }
                raw.push_str(&format!("{},", t.value()));
            }
            sem.push('|');
            raw.push('|');
        }
        for m in &list {
            for t in m {
                self.issue(*t)?;
            }
        }
        Ok(Answer { sem, raw })
    }

    fn restart_json(&mut self) -> Result<(), String> {
        let text = serde_json::to_string(&self.adf).map_err(|e| format!("export failed: {e}"))?;
        let mut back: Adf = serde_json::from_str(&text).map_err(|e| format!("import failed: {e}"))?;
        back.fix_import();
        self.adf = back; // the old object, with every volatile table, is dropped here
        Ok(())
    }

    fn restart_db(&mut self) {
        // exactly the library calls of the server's `From<SimplifiedAdf> for Adf`
        let names = self.adf.ordering.names().read().unwrap().clone();
        let mapping = self.adf.ordering.mappings().read().unwrap().clone();
        let nodes = self.adf.bdd.nodes.clone();
        let ac = self.adf.ac.clone();
        let bdd = Bdd::from(nodes);
        let vc = VarContainer::from_parser(Arc::new(RwLock::new(names)), Arc::new(RwLock::new(mapping)));
        self.adf = Adf::from((vc, bdd, ac));
    }

    fn step(&mut self, s: &Step) -> Result<Answer, String> {
        let n = self.n;
        Ok(match s {
            Step::Grounded => {
                let g = self.adf.grounded();
                self.interps(vec![g])?
            }
            Step::Complete => {
                let l: Vec<_> = self.adf.complete().collect();
                self.interps(l)?
            }
            Step::Stable => {
                let l: Vec<_> = self.adf.stable().collect();
                self.interps(l)?
            }
            Step::StablePrefilter => {
                let l: Vec<_> = self.adf.stable_with_prefilter().collect();
                self.interps(l)?
            }
            Step::StableRewrite => {
                let l: Vec<_> = match &self.bio {
                    Some(b) => self.adf.stable_bdd_representation(b),
                    // native objects have no biodivine origin: the plain lazy enumeration
                    None => self.adf.stable().collect(),
                };
                self.interps(l)?
            }
            Step::CompleteTake(k) => {
                let l: Vec<_> = self.adf.complete().take(*k).collect();
                self.interps(l)?
            }
            Step::StableTake(k) => {
                let l: Vec<_> = self.adf.stable().take(*k).collect();
                self.interps(l)?
            }
            Step::StableCountA => {
                let l: Vec<_> = self.adf.stable_count_optimisation_heu_a().collect();
                self.interps(l)?
            }
            Step::StableCountB => {
                let l: Vec<_> = self.adf.stable_count_optimisation_heu_b().collect();
                self.interps(l)?
            }
            Step::Nogood(h) => {
                let heu = heuristic(&mut self.adf, *h);
                let l: Vec<_> = self.adf.stable_nogood(heu).collect();
                self.interps(l)?
            }
            Step::TwoValNogood(h) => {
                let heu = heuristic(&mut self.adf, *h);
                let (s, r) = crossbeam_channel::unbounded();
                self.adf.two_val_nogood_channel(heu, s);
                let l: Vec<_> = r.iter().collect();
                self.interps(l)?
            }
            Step::PrintGrounded => {
                let g = self.adf.grounded();
                let printed = format!("{}", self.adf.print_interpretation(&g));
                let via_dict = format!("{}", self.adf.print_dictionary().print_interpretation(&g));
                let names = self.adf.ordering.names().read().unwrap().clone();
                let mut mapping: Vec<(String, usize)> = self.adf.ordering.mappings().read().unwrap().iter().map(|(k, v)| (k.clone(), *v)).collect();
                mapping.sort();
                for t in &g {
                    self.issue(*t)?;
                }
                let s = format!("{printed:?} {via_dict:?} {names:?} {mapping:?}");
                Answer { sem: s.clone(), raw: s }
            }
            Step::SwapAc(i, j) => {
                let n = self.n;
                self.adf.ac.swap(i % n, j % n);
                Answer { sem: "swap".into(), raw: "swap".into() }
            }
            Step::FormulaCountsMemo => {
                let _ = self.adf.formulacounts(true);
                Answer { sem: "memoised-counts-not-judged".into(), raw: "memoised-counts-not-judged".into() }
            }
            Step::FormulaCountsNaive => {
                let c = self.adf.formulacounts(false);
                let s = format!("{:?}", c.iter().map(|m| (m.cmodels, m.models)).collect::<Vec<_>>());
                Answer { sem: s.clone(), raw: s }
            }
            Step::FacetCountAc | Step::FacetCountGrounded => {
                let interp = if matches!(s, Step::FacetCountAc) {
                    self.adf.ac.clone()
                } else {
                    self.adf.grounded()
                };
                let c = self.adf.facet_count(&interp);
                let s = format!("{:?}", c.iter().map(|(m, f)| (m.cmodels, m.models, f.0, f.1)).collect::<Vec<_>>());
                Answer { sem: s.clone(), raw: s }
            }
            Step::Paths(r) => {
                let t = self.resolve(*r);
                let p = self.adf.bdd.paths(t, true);
                let s = format!("paths({:x})=({},{})", self.tt(t)?, p.cmodels, p.models);
                Answer { raw: format!("{s}@{}", t.value()), sem: s }
            }
            Step::MaxDepth(r) => {
                let t = self.resolve(*r);
                let d = self.adf.bdd.max_depth(t);
                let s = format!("depth({:x})={d}", self.tt(t)?);
                Answer { raw: format!("{s}@{}", t.value()), sem: s }
            }
            Step::VarDeps(r) => {
                let t = self.resolve(*r);
                let mut d: Vec<usize> = self.adf.bdd.var_dependencies(t).into_iter().map(|v| v.value()).collect();
                d.sort();
                let s = format!("deps({:x})={d:?}", self.tt(t)?);
                Answer { raw: format!("{s}@{}", t.value()), sem: s }
            }
            Step::PassiveImpact(v) => {
                let ac = self.adf.ac.clone();
                let s = format!("passive({})={}", v % n, self.adf.bdd.passive_var_impact(Var(v % n), &ac));
                Answer { sem: s.clone(), raw: s }
            }
            Step::Cubes(r, goal, gv) => {
                let t = self.resolve(*r);
                let cubes = self.adf.bdd.interpretations(t, *goal, Var(gv % n), &[], &[]);
                let s = format!(
                    "cubes({:x},{goal},{})={:?}",
                    self.tt(t)?,
                    gv % n,
                    cubes.iter().map(|(neg, pos)| (neg.iter().map(|v| v.value()).collect::<Vec<_>>(), pos.iter().map(|v| v.value()).collect::<Vec<_>>())).collect::<Vec<_>>()
                );
                Answer { raw: format!("{s}@{}", t.value()), sem: s }
            }
            Step::ActiveImpact(v) => {
                let ac = self.adf.ac.clone();
                let s = format!("active({})={}", v % n, self.adf.bdd.active_var_impact(Var(v % n), &ac));
                Answer { sem: s.clone(), raw: s }
            }
            Step::Extra(op) if n > 6 => {
                let t = match op {
                    XOp::Var(v) => self.adf.bdd.variable(Var(v % n)),
                    XOp::Not(a) => {
                        let a = self.resolve(*a);
                        self.adf.bdd.not(a)
                    }
                    XOp::And(a, b) | XOp::Or(a, b) | XOp::Imp(a, b) | XOp::Iff(a, b) | XOp::Xor(a, b) => {
                        let (a, b) = (self.resolve(*a), self.resolve(*b));
                        match op {
                            XOp::And(..) => self.adf.bdd.and(a, b),
                            XOp::Or(..) => self.adf.bdd.or(a, b),
                            XOp::Imp(..) => self.adf.bdd.imp(a, b),
                            XOp::Iff(..) => self.adf.bdd.iff(a, b),
                            _ => self.adf.bdd.xor(a, b),
                        }
                    }
                    XOp::Restrict(a, v, val) => {
                        let a = self.resolve(*a);
                        self.adf.bdd.restrict(a, Var(v % n), *val)
                    }
                };
                self.extras.push(t);
                Answer { sem: format!("extra@{}", t.value()), raw: format!("extra@{}", t.value()) }
            }
            Step::Extra(op) => {
                let mask = tt_mask(n);
                let (t, want) = match op {
                    XOp::Var(v) => (self.adf.bdd.variable(Var(v % n)), tt_var(v % n, n)),
                    XOp::Not(a) => {
                        let a = self.resolve(*a);
                        let fa = self.tt(a)?;
                        (self.adf.bdd.not(a), !fa & mask)
                    }
                    XOp::And(a, b) | XOp::Or(a, b) | XOp::Imp(a, b) | XOp::Iff(a, b) | XOp::Xor(a, b) => {
                        let (a, b) = (self.resolve(*a), self.resolve(*b));
                        let (fa, fb) = (self.tt(a)?, self.tt(b)?);
                        match op {
                            XOp::And(..) => (self.adf.bdd.and(a, b), fa & fb),
                            XOp::Or(..) => (self.adf.bdd.or(a, b), fa | fb),
                            XOp::Imp(..) => (self.adf.bdd.imp(a, b), (!fa | fb) & mask),
                            XOp::Iff(..) => (self.adf.bdd.iff(a, b), !(fa ^ fb) & mask),
                            _ => (self.adf.bdd.xor(a, b), fa ^ fb),
                        }
                    }
                    XOp::Restrict(a, v, val) => {
                        let a = self.resolve(*a);
                        let fa = self.tt(a)?;
                        (self.adf.bdd.restrict(a, Var(v % n), *val), tt_restrict(fa, v % n, *val, n))
                    }
                };
                let got = self.tt(t)?;
                self.extras.push(t);
                self.issue(t)?;
                Answer {
                    sem: format!("extra={got:x} want={want:x}"),
                    raw: format!("extra@{}", t.value()),
                }
            }
            Step::RestartJson => {
                self.restart_json()?;
                Answer { sem: "restart".into(), raw: "restart-json".into() }
            }
            Step::RestartDb => {
                self.restart_db();
                Answer { sem: "restart".into(), raw: "restart-db".into() }
            }
            Step::RestartBddJson => {
                let text = serde_json::to_string(&self.adf.bdd).map_err(|e| format!("export failed: {e}"))?;
                let mut bdd: Bdd = serde_json::from_str(&text).map_err(|e| format!("import failed: {e}"))?;
                bdd.fix_import();
                let names = self.adf.ordering.names().read().unwrap().clone();
                let mapping = self.adf.ordering.mappings().read().unwrap().clone();
                let ac = self.adf.ac.clone();
                let vc = VarContainer::from_parser(Arc::new(RwLock::new(names)), Arc::new(RwLock::new(mapping)));
                self.adf = Adf::from((vc, bdd, ac));
                Answer { sem: "restart".into(), raw: "restart-bdd-json".into() }
            }
            Step::FixImport => {
                self.adf.fix_import();
                Answer { sem: "fix_import".into(), raw: "fix_import".into() }
            }
        })
    }
}

fn is_restart(s: &Step) -> bool {
    matches!(s, Step::RestartJson | Step::RestartDb | Step::RestartBddJson)
}

enum StepErr {
    Panic(String),
    Budget(u64),
    Other(String),
}

thread_local! {
    /// step budget (search-loop iterations) of the medium dense family: a case that needs more
    /// is abandoned - counted, never judged - so that no case runs for minutes
    static DENSE_BUDGET: std::cell::Cell<Option<u64>> = const { std::cell::Cell::new(None) };
}

fn guarded<T>(f: impl FnOnce() -> Result<T, String>) -> Result<T, StepErr> {
    adf_bdd::verif::arm(DENSE_BUDGET.with(|b| b.get()).unwrap_or(crate::nogood::TICK_BUDGET));
    match std::panic::catch_unwind(std::panic::AssertUnwindSafe(f)) {
        Ok(Ok(v)) => Ok(v),
        Ok(Err(e)) => Err(StepErr::Other(e)),
        Err(p) => {
            if let Some(b) = p.downcast_ref::<adf_bdd::verif::BudgetExceeded>() {
                Err(StepErr::Budget(b.ticks))
            } else {
                let loc = simcore::panics::take_last();
                Err(StepErr::Panic(loc.unwrap_or_else(|| simcore::panics::payload_to_string(p.as_ref()))))
            }
        }
    }
}

fn gen_ref(rng: &mut Rng, n: usize, extras_so_far: usize) -> Ref {
    match rng.below(10) {
        0 => Ref::Const(rng.chance(1, 2)),
        1..=4 => Ref::Ac(rng.below(n as u64) as usize),
        _ => {
            if extras_so_far == 0 {
                Ref::Ac(rng.below(n as u64) as usize)
            } else {
                Ref::Extra(rng.below(extras_so_far as u64) as usize)
            }
        }
    }
}

fn gen_heu(rng: &mut Rng) -> HeuK {
    match rng.below(5) {
        0 => HeuK::Simple,
        1 => HeuK::MinPaths,
        2 => HeuK::MaxVarImp,
        _ => HeuK::Rand(rng.bytes32()),
    }
}

impl History {
    /// Around the 64-variable / 2^64-count boundaries: 63-70 statements, one parity condition
    /// over all of them (2^(n-1) paths to each leaf), a chain that the grounded interpretation
    /// decides step by step, restarts in between. Judged by raw handles and T/F/u patterns
    /// against the never-restarted twin and by the structural canonicity check.
    fn generate_large(&self, rng: &mut Rng) -> HistCase {
        use refsem::F;
        let n = *rng.pick(&[63usize, 64, 65, 66, 70]);
        let names: Vec<String> = (0..n).map(|i| format!("s{i}")).collect();
        // balanced, so that the replay file stays shallow (the diagram is the same)
        fn xor_tree(lo: usize, hi: usize) -> F {
            if lo + 1 == hi {
                F::Atom(lo)
            } else {
                let mid = (lo + hi) / 2;
                F::Xor(Box::new(xor_tree(lo, mid)), Box::new(xor_tree(mid, hi)))
            }
        }
        // or a conjunction / disjunction of all of them: a chain whose nodes have one constant
        // child and one child 60+ levels deep (model counts of 2^64 and more)
        fn junct_tree(lo: usize, hi: usize, and: bool) -> F {
            if lo + 1 == hi {
                F::Atom(lo)
            } else {
                let mid = (lo + hi) / 2;
                let (a, b) = (Box::new(junct_tree(lo, mid, and)), Box::new(junct_tree(mid, hi, and)));
                if and {
                    F::And(a, b)
                } else {
                    F::Or(a, b)
                }
            }
        }
        let parity = match rng.below(4) {
            0 => junct_tree(0, n, true),
            1 => junct_tree(0, n, false),
            _ => xor_tree(0, n),
        };
        let mut acs = vec![parity];
        for i in 1..n - 1 {
            acs.push(match rng.below(6) {
                0 => F::Not(Box::new(F::Atom(i + 1))),
                1 => F::And(Box::new(F::Atom(i + 1)), Box::new(F::Atom(n - 1))),
                _ => F::Atom(i + 1),
            });
        }
        acs.push(if rng.chance(1, 2) { F::Top } else { F::Bot });
        let spec = AdfSpec { names, acs, ac_order: (0..n).collect() };
        let len = rng.range(4, 12) as usize;
        let mut steps = Vec::new();
        let mut extras = 0usize;
        for _ in 0..len {
            let r = |rng: &mut Rng| Ref::Ac(*rng.pick(&[0usize, 1, n / 2, n - 2, n - 1]));
            let s = match rng.below(14) {
                0 | 1 => Step::Grounded,
                2 => Step::PrintGrounded,
                3 => Step::Paths(r(rng)),
                4 => Step::MaxDepth(r(rng)),
                5 => Step::VarDeps(r(rng)),
                6 => Step::PassiveImpact(*rng.pick(&[0usize, 63, 64, n - 1])),
                7 => Step::ActiveImpact(*rng.pick(&[0usize, 63, 64, n - 1])),
                8 | 9 => {
                    extras += 1;
                    let a = if extras > 1 && rng.chance(1, 2) { Ref::Extra(rng.below(extras as u64 - 1) as usize) } else { r(rng) };
                    Step::Extra(match rng.below(4) {
                        0 => XOp::Restrict(a, *rng.pick(&[0usize, 62, 63, 64, n - 1]), rng.chance(1, 2)),
                        1 => XOp::Xor(a, r(rng)),
                        2 => XOp::And(a, r(rng)),
                        _ => XOp::Var(*rng.pick(&[0usize, 63, 64, n - 1])),
                    })
                }
                10 | 11 => Step::RestartJson,
                12 => Step::RestartBddJson,
                _ => Step::RestartDb,
            };
            steps.push(s);
        }
        HistCase { spec, build: if rng.chance(1, 3) { Build::Bridged } else { Build::Native }, steps }
    }
}

impl History {
    /// More statements than a machine word has bits, nearly all of them facts: a small random
    /// ADF embedded at positions congruent modulo 64, and a history of searches on it (every
    /// search with every heuristic, the counting variants, the lazy semantics). Judged against
    /// the fresh twin and the second execution like every other history.
    fn generate_sparse_large(&self, rng: &mut Rng) -> HistCase {
        let n = *rng.pick(&[66usize, 70, 72, 130]);
        let k = rng.range(2, 4) as usize;
        let depth = rng.range(1, 2) as u32;
            let small = AdfSpec::gen(rng, k, depth, "s");
        let base = rng.below((n - 64) as u64) as usize;
        let mut positions = vec![base, base + 64];
        while positions.len() < k {
            let p = if base + 32 < n && rng.chance(1, 2) { base + 32 } else { rng.below(n as u64) as usize };
            if !positions.contains(&p) {
                positions.push(p);
            }
        }
        if rng.chance(1, 2) {
            positions.reverse();
        }
        let salt = rng.below(7) as usize;
        let spec = refsem::Sparse::embed(&small, &positions, n, &|i| (i * 5 + salt) % 3 != 0);
        let len = rng.range(2, 7) as usize;
        let steps = (0..len)
            .map(|_| match rng.below(10) {
                0 => Step::Grounded,
                1 => Step::Stable,
                2 => Step::Complete,
                3 => Step::StableCountA,
                4 => Step::StableCountB,
                5 | 6 => Step::TwoValNogood(gen_heu(rng)),
                _ => Step::Nogood(gen_heu(rng)),
            })
            .collect();
        HistCase { spec, build: Build::Native, steps }
    }
}

impl History {
    /// Medium-sized dense instances: 13-17 statements whose conditions are deep and xor/iff-heavy,
    /// so that a single stability check builds hundreds of nodes, and a short history of
    /// searches (every answer is a list of two-valued interpretations, compared with the fresh
    /// twin's). Reaches what neither the tabulated (<= 5 statements) nor the sparse large
    /// histories do: thousands of scratch nodes and memo entries between two answers.
    fn generate_medium_dense(&self, rng: &mut Rng) -> HistCase {
        use refsem::F;
        fn dense(rng: &mut Rng, n: usize, depth: u32) -> F {
            if depth == 0 || rng.chance(1, 6) {
                return F::Atom(rng.below(n as u64) as usize);
            }
            let a = Box::new(dense(rng, n, depth - 1));
            if rng.chance(1, 6) {
                return F::Not(a);
            }
            let b = Box::new(dense(rng, n, depth - 1));
            match rng.below(5) {
                0 => F::And(a, b),
                1 => F::Or(a, b),
                2 | 3 => F::Xor(a, b),
                _ => F::Iff(a, b),
            }
        }
        let n = rng.range(13, 16) as usize;
        let names: Vec<String> = (0..n).map(|i| format!("s{i}")).collect();
        let acs: Vec<F> = (0..n).map(|_| { let d = rng.range(4, 5) as u32; dense(rng, n, d) }).collect();
        let spec = AdfSpec { names, acs, ac_order: (0..n).collect() };
        let len = rng.range(3, 6) as usize;
        let steps = (0..len)
            .map(|_| {
                let heu = match rng.below(3) {
                    0 => HeuK::Simple,
                    1 => HeuK::MinPaths,
                    _ => HeuK::MaxVarImp,
                };
                match rng.below(8) {
                    0 | 1 => Step::TwoValNogood(HeuK::Simple),
                    _ => Step::Nogood(heu),
                }
            })
            .collect();
        HistCase { spec, build: Build::Native, steps }
    }
}

impl Scenario for History {
    type Case = HistCase;
    fn name(&self) -> &'static str {
        "history"
    }
    fn property(&self) -> &'static str {
        self.property
    }
    fn rule(&self) -> String {
        match self.property {
            "C11" => "case = ADF (1-5 statements; native / bridged / bridged+pre-grounded; rarely 66-130 mostly-fact statements or 13-16 statements with deep xor/iff-heavy conditions and a history of searches) + history of 1-25 public API calls (all semantics, nogood search with every built-in heuristic incl. Rand under drawn seeds, counts, facets, paths/depth/dependencies/impacts on issued handles, extra formulas built on the shared diagram). Simulator-owned: the order of calls on one object, the entropy seam (Adf::seed), hash-iteration order (two independently built objects per plan). Non-trivial: the history has >= 2 calls of which >= 1 grows the node table or fills a memo table before a later answer is taken. Distinct = distinct case hashes (the history is the schedule)".into(),
            "C14" => "case = ADF + history as for C11 with RestartJson (serde_json export -> drop -> import -> fix_import) and RestartDb (node list + ordering + roots -> Bdd::from -> Adf::from) drawn at any point, any number of times. Non-trivial: at least one restart fired with at least one answer taken afterwards. Distinct = distinct case hashes".into(),
            _ => "case = as C14 (restarts at arbitrary points, bridged starts); verdict after every step: table reduced, ordered, duplicate-free, constants first, distinct handles denote distinct functions (table walker), top/bottom handle iff valid/unsatisfiable. Non-trivial: a restart or bridge import happened and the table grew afterwards. Distinct = distinct case hashes".into(),
        }
    }

    fn generate(&self, rng: &mut Rng, thorough: bool) -> HistCase {
        if self.property != "C11" && rng.chance(1, if thorough { 300 } else { 500 }) {
            return self.generate_large(rng);
        }
        if self.property == "C11" && rng.chance(1, if thorough { 300 } else { 500 }) {
            return self.generate_sparse_large(rng);
        }
        if self.property == "C11" {
            // decided on a fork of the generator, so that every other case of the batch is what
            // it was before this family existed; the family is expensive (seconds per case)
            let mut fork = Rng::new(simcore::rng::mix(rng.clone().next_u64(), 0xd3a5e));
            if std::env::var("HIST_ONLY_DENSE").is_ok() || fork.chance(1, if thorough { 1500 } else { 6000 }) {
                return self.generate_medium_dense(&mut fork);
            }
        }
        let n = rng.range(1, 5) as usize;
        let depth = rng.range(1, 3) as u32;
        let mut spec = AdfSpec::gen(rng, n, depth, "s");
        if rng.chance(1, 4) {
            refsem::odd_names(rng, &mut spec);
        }
        let build = match rng.below(4) {
            0 => Build::Bridged,
            1 => Build::BridgedGrounded,
            _ => Build::Native,
        };
        if build == Build::Native && n >= 2 && rng.chance(1, 12) {
            // labels that spell a formula (only the native route can take parentheses)
            spec.names[1] = format!("not({})", spec.names[0]);
            if n >= 3 {
                spec.names[2] = if rng.chance(1, 2) { format!("and({},{})", spec.names[0], spec.names[1]) } else { format!("or({},{})", spec.names[1], spec.names[0]) };
            }
        }
        let with_restarts = self.property != "C11";
        let len = rng.range(1, if thorough { 30 } else { 25 }) as usize;
        let mut steps = Vec::new();
        let mut extras = 0usize;
        for _ in 0..len {
            if rng.chance(1, 40) {
                steps.push(Step::FixImport);
                continue;
            }
            if rng.chance(1, 25) {
                let k = rng.range(0, 2) as usize;
                steps.push(if rng.chance(1, 2) { Step::CompleteTake(k) } else { Step::StableTake(k) });
                continue;
            }
            let s = match rng.below(if with_restarts { 24 } else { 20 }) {
                0 => Step::Grounded,
                1 => Step::Complete,
                2 => Step::Stable,
                3 => Step::StablePrefilter,
                4 => Step::StableCountA,
                5 => Step::StableCountB,
                6 => Step::Nogood(gen_heu(rng)),
                7 => Step::TwoValNogood(gen_heu(rng)),
                8 if rng.chance(1, 2) => Step::PrintGrounded,
                8 => Step::FormulaCountsNaive,
                9 => {
                    if rng.chance(1, 2) {
                        Step::FacetCountAc
                    } else {
                        Step::FacetCountGrounded
                    }
                }
                10 => Step::Paths(gen_ref(rng, n, extras)),
                11 => Step::MaxDepth(gen_ref(rng, n, extras)),
                12 => Step::VarDeps(gen_ref(rng, n, extras)),
                13 if rng.chance(1, 2) => Step::Cubes(gen_ref(rng, n, extras), rng.chance(1, 2), rng.below(n as u64) as usize),
                13 => {
                    if rng.chance(1, 2) {
                        Step::PassiveImpact(rng.below(n as u64) as usize)
                    } else {
                        Step::ActiveImpact(rng.below(n as u64) as usize)
                    }
                }
                14..=19 => {
                    let a = gen_ref(rng, n, extras);
                    let b = gen_ref(rng, n, extras);
                    let op = match rng.below(8) {
                        0 => XOp::Var(rng.below(n as u64) as usize),
                        1 => XOp::Not(a),
                        2 => XOp::And(a, b),
                        3 => XOp::Or(a, b),
                        4 => XOp::Imp(a, b),
                        5 => XOp::Iff(a, b),
                        6 => XOp::Xor(a, b),
                        _ => XOp::Restrict(a, rng.below(n as u64) as usize, rng.chance(1, 2)),
                    };
                    extras += 1;
                    Step::Extra(op)
                }
                20 => Step::RestartJson,
                21 => {
                    if rng.chance(1, 2) {
                        Step::RestartJson
                    } else {
                        Step::RestartBddJson
                    }
                }
                _ => Step::RestartDb,
            };
            steps.push(s);
        }
        // drawn last, so that every other draw of this generator is what it was before the step
        // existed: on bridged objects the hybrid rewriting, preferably as the very first call
        let mut steps = steps;
        if build != Build::Native && rng.chance(1, 5) {
            let at = if rng.chance(2, 3) { 0 } else { rng.below(steps.len() as u64 + 1) as usize };
            steps.insert(at, Step::StableRewrite);
        }
        // drawn last (C11 only): an exchange of two conditions through the public field, a
        // memoised count (not judged itself), a Rand search whose seed has to survive fix_import
        if self.property == "C11" {
            if n >= 2 && build == Build::Native && rng.chance(1, 6) {
                let at = rng.below(steps.len() as u64 + 1) as usize;
                let (a, b) = (rng.below(n as u64) as usize, rng.below(n as u64) as usize);
                steps.insert(at, Step::SwapAc(a, b));
            }
            if rng.chance(1, 8) {
                let at = rng.below(steps.len() as u64 + 1) as usize;
                steps.insert(at, Step::FormulaCountsMemo);
            }
            if rng.chance(1, 8) {
                let at = rng.below(steps.len() as u64 + 1) as usize;
                let seed = rng.bytes32();
                steps.insert(at, if rng.chance(1, 2) { Step::Nogood(HeuK::RandAfterFixImport(seed)) } else { Step::TwoValNogood(HeuK::RandAfterFixImport(seed)) });
            }
        }
        HistCase { spec, build, steps }
    }

    fn execute(&self, case: &HistCase, dec: Decisions) -> RunResult {
        let mut stats = Stats::default();
        let prop = self.property;
        let decisions = dec.values();
        let v = |o: &str, c: &str, m: String| Some(Violation::new(o, c, m));
        let ctx = format!("[{} {:?}]", case.spec.text(), case.build);
        let mut log = Fnv::new();
        let mut nontrivial = false;
        let mut result: Option<Violation> = None;
        // medium dense family: bounded in counted search-loop iterations (deterministic), a
        // case that needs more is abandoned
        let dense = (7..=20).contains(&case.spec.n());
        DENSE_BUDGET.with(|b| b.set(if dense { Some(1500) } else { None }));

        'run: {
            // main object
            let mut main = match guarded(|| Obj::fresh(&case.spec, case.build)) {
                Ok(o) => o,
                Err(e) => {
                    result = v("no-panic", "build", format!("{} {ctx}", err_text(&e)));
                    break 'run;
                }
            };
            // companion object: C11 -> second run of the same plan (determinism);
            // C14 -> never-restarted twin; C06 -> none
            let mut companion = if prop == "C06" {
                None
            } else {
                match guarded(|| Obj::fresh(&case.spec, case.build)) {
                    Ok(o) => Some(o),
                    Err(e) => {
                        result = v("no-panic", "build", format!("{} {ctx}", err_text(&e)));
                        break 'run;
                    }
                }
            };
            // large instances are not tabulated (2^n assignments)
            let small = case.spec.n() <= 6;
            let sem = if small { refsem::Sem::new(&case.spec) } else { refsem::Sem::from_tables(0, Vec::new()) };
            let grounded_ref = if small { sem.grounded() } else { Vec::new() };
            if prop == "C06" {
                if let Some(vv) = canonical_verdict(&main, "after-build") {
                    result = Some(vv);
                    break 'run;
                }
                // the handle stored for a statement denotes its condition (for the pre-grounded
                // bridge: with the grounded values substituted) — otherwise the formula <-> handle
                // correspondence is broken from the start
                if case.spec.n() <= 6 {
                    let grounded = sem.grounded();
                    for (i, tab) in sem.tabs.iter().enumerate() {
                        let got = match main.tt(main.adf.ac[i]) {
                            Ok(g) => g,
                            Err(e) => {
                                result = v("canonical", "build-function", format!("statement {i}: {e} {ctx}"));
                                break 'run;
                            }
                        };
                        let nn = case.spec.n();
                        let mut want = 0u64;
                        for w in 0..(1u32 << nn) {
                            // pre-grounded import: decided statements are substituted
                            let mut w2 = w;
                            if case.build == Build::BridgedGrounded {
                                for (j, gv) in grounded.iter().enumerate() {
                                    match gv {
                                        V::T => w2 |= 1 << j,
                                        V::F => w2 &= !(1 << j),
                                        V::U => {}
                                    }
                                }
                            }
                            if tab[w2 as usize] {
                                want |= 1 << w;
                            }
                        }
                        if got != want {
                            result = v("canonical", "build-function", format!("after build, the handle of statement {i} denotes {got:x}, its acceptance condition {want:x} {ctx}"));
                            break 'run;
                        }
                    }
                }
            }
            let mut restarts_fired = 0u64;
            let mut answers_after_restart = 0u64;
            let mut grew_after_recovery = false;
            let mut mutating_before = false;
            let mut raw_equal = 0u64;
            let mut raw_differs = 0u64;
            for (i, step) in case.steps.iter().enumerate() {
                let len_before = main.adf.bdd.nodes.len();
                let (nodes_before, ac_before) = if is_restart(step) {
                    (Some(main.adf.bdd.nodes.clone()), Some(main.adf.ac.clone()))
                } else {
                    (None, None)
                };
                let ord_before = if is_restart(step) { Some(ordering_of(&main.adf)) } else { None };
                let a = match guarded(|| main.step(step)) {
                    Ok(a) => a,
                    Err(e) => {
                        result = step_error(prop, i, step, &e, &ctx, restarts_fired > 0);
                        break 'run;
                    }
                };
                log.str(&a.sem).str(&a.raw);
                stats.inc("api_calls");
                if is_restart(step) {
                    restarts_fired += 1;
                    stats.inc(match step {
                        Step::RestartJson => "fault_restart_json_fired",
                        Step::RestartBddJson => "fault_restart_bdd_json_fired",
                        _ => "fault_restart_db_fired",
                    });
                    stats.inc(&format!("restart_at_position_{}", (i * 4 / case.steps.len().max(1)).min(3)));
                    if prop == "C14" {
                        if Some(&main.adf.bdd.nodes) != nodes_before.as_ref() {
                            result = v("restart-identity", "nodes-differ", format!("step {i} {step:?}: node table changed across the restart (len {} -> {}) {ctx}", nodes_before.unwrap().len(), main.adf.bdd.nodes.len()));
                            break 'run;
                        }
                        let ord_after = ordering_of(&main.adf);
                        if Some(&ord_after) != ord_before.as_ref() {
                            result = v("restart-identity", "ordering-differs", format!("step {i} {step:?}: names/mapping {:?} -> {:?} {ctx}", ord_before.unwrap(), ord_after));
                            break 'run;
                        }
                        if Some(&main.adf.ac) != ac_before.as_ref() {
                            result = v("restart-identity", "roots-differ", format!("step {i} {step:?}: {:?} -> {:?} {ctx}", ac_before.unwrap(), main.adf.ac));
                            break 'run;
                        }
                    }
                } else if restarts_fired > 0 {
                    answers_after_restart += 1;
                }
                if main.adf.bdd.nodes.len() > len_before {
                    if restarts_fired > 0 || case.build != Build::Native {
                        grew_after_recovery = true;
                    }
                }
                if i > 0 && mutating_before {
                    nontrivial = nontrivial || prop == "C11";
                }
                if main.adf.bdd.nodes.len() > len_before || !matches!(step, Step::Paths(_) | Step::MaxDepth(_) | Step::VarDeps(_) | Step::Cubes(..) | Step::PassiveImpact(_) | Step::ActiveImpact(_) | Step::FormulaCountsNaive | Step::FacetCountAc) {
                    mutating_before = true;
                }

                // --- oracles common to C11/C14: extra formulas denote what they should
                // a formula built on the (possibly recovered / bridged) store denotes the function
                // of its operands: otherwise two different functions share a handle
                if let Step::Extra(_) = step {
                    let parts: Vec<&str> = a.sem.split(' ').collect();
                    if parts.len() == 2 && parts[0].trim_start_matches("extra=") != parts[1].trim_start_matches("want=") {
                        result = v("extra-formula", "wrong-function", format!("step {i} {step:?}: {} {ctx}", a.sem));
                        break 'run;
                    }
                }
                if prop != "C06" {
                    // handle stability: everything issued so far still denotes its function
                    for (h, f) in main.issued.clone() {
                        match main.tt(h) {
                            Ok(g) if g == f => {}
                            Ok(g) => {
                                result = v("handle-stability", "function-changed", format!("after step {i} {step:?}: handle {} denoted {f:x}, now {g:x} {ctx}", h.value()));
                                break 'run;
                            }
                            Err(e) => {
                                result = v("handle-stability", "handle-broken", format!("after step {i} {step:?}: handle {}: {e} {ctx}", h.value()));
                                break 'run;
                            }
                        }
                    }
                }
                match prop {
                    "C11" => {
                        // (3) second execution of the same plan on an independently built object
                        let c = companion.as_mut().unwrap();
                        let b = match guarded(|| c.step(step)) {
                            Ok(b) => b,
                            Err(e) => {
                                result = v("determinism", "second-run-failed", format!("step {i} {step:?}: {} {ctx}", err_text(&e)));
                                break 'run;
                            }
                        };
                        if a != b {
                            result = v("determinism", "second-run-differs", format!("step {i} {step:?}: first run {} / {}, second run {} / {} {ctx}", a.sem, a.raw, b.sem, b.raw));
                            break 'run;
                        }
                        // (1) fresh twin asked only this question (plus the extras it refers to)
                        let swapped_before = case.steps[..i].iter().any(|s| matches!(s, Step::SwapAc(..)));
                        let refers_to_handles = matches!(step, Step::Paths(_) | Step::MaxDepth(_) | Step::VarDeps(_) | Step::Cubes(..));
                        if !matches!(step, Step::Extra(_) | Step::SwapAc(..)) && !(swapped_before && refers_to_handles) {
                            let t = match guarded(|| fresh_answer(case, i)) {
                                Ok(t) => t,
                                Err(e) => {
                                    result = v("fresh-twin", "twin-failed", format!("step {i} {step:?}: {} {ctx}", err_text(&e)));
                                    break 'run;
                                }
                            };
                            stats.inc("fresh_twins_built");
                            if t.sem != a.sem {
                                result = v("fresh-twin", answer_kind(step), format!("step {i} {step:?}: long-lived object answered {}, fresh object {} {ctx}", a.sem, t.sem));
                                break 'run;
                            }
                        }
                    }
                    "C14" => {
                        if !is_restart(step) {
                            let c = companion.as_mut().unwrap();
                            let b = match guarded(|| c.step(step)) {
                                Ok(b) => b,
                                Err(e) => {
                                    result = v("harness", "never-restarted-twin-failed", format!("step {i} {step:?}: {} {ctx}", err_text(&e)));
                                    break 'run;
                                }
                            };
                            if a.sem != b.sem {
                                result = v("restart-transparency", answer_kind(step), format!("step {i} {step:?} after {restarts_fired} restart(s): restarted object answered {}, never-restarted twin {} {ctx}", a.sem, b.sem));
                                break 'run;
                            }
                            if restarts_fired > 0 {
                                if a.raw == b.raw {
                                    raw_equal += 1;
                                } else {
                                    raw_differs += 1;
                                }
                            }
                        }
                    }
                    _ => {
                        if let Some(vv) = canonical_verdict(&main, &format!("after step {i} {step:?}")) {
                            let mut vv = vv;
                            vv.message = format!("{} {ctx}", vv.message);
                            result = Some(vv);
                            break 'run;
                        }
                    }
                }
            }
            // grounded sanity against the definition on the long-lived object's statements is
            // deliberately *not* judged here (C01 is a pure property); `grounded_ref` only
            // feeds the evidence
            let _ = grounded_ref;
            stats.add("probe_raw_handles_equal_after_restart", raw_equal);
            stats.add("probe_raw_handles_differ_after_restart", raw_differs);
            match prop {
                "C14" => nontrivial = restarts_fired > 0 && answers_after_restart > 0,
                "C06" => nontrivial = grew_after_recovery,
                _ => {}
            }
            if case.build != Build::Native {
                stats.inc("bridged_starts");
            }
            stats.max("max_table_len", main.adf.bdd.nodes.len() as u64);
        }
        DENSE_BUDGET.with(|b| b.set(None));
        if dense && result.as_ref().map(|v| v.message.contains("search did not end within")).unwrap_or(false) {
            stats.inc("dense_case_abandoned_over_iteration_budget");
            result = None;
        }
        let h = log.finish();
        RunResult {
            violation: result,
            decisions,
            signature: h,
            log_hash: h,
            nontrivial,
            stats,
        }
    }

    fn simplify(&self, c: &HistCase) -> Vec<HistCase> {
        let mut out = Vec::new();
        // drop steps (chunks first)
        let n = c.steps.len();
        let mut chunk = n / 2;
        while chunk >= 1 {
            let mut i = 0;
            while i + chunk <= n {
                let mut d = c.clone();
                d.steps.drain(i..i + chunk);
                out.push(d);
                i += chunk;
            }
            if chunk == 1 {
                break;
            }
            chunk /= 2;
        }
        if c.build != Build::Native {
            let mut d = c.clone();
            d.build = Build::Native;
            out.push(d);
        }
        for s in c.spec.simpler() {
            if s.n() == c.spec.n() {
                let mut d = c.clone();
                d.spec = s;
                out.push(d);
            } else {
                // fewer statements: references are taken modulo n, so the history stays valid
                let mut d = c.clone();
                d.spec = s;
                out.push(d);
            }
        }
        for (i, s) in c.steps.iter().enumerate() {
            if let Step::Nogood(HeuK::Rand(seed)) | Step::TwoValNogood(HeuK::Rand(seed)) = s {
                if seed.iter().any(|b| *b != 0) {
                    let mut d = c.clone();
                    d.steps[i] = match s {
                        Step::Nogood(_) => Step::Nogood(HeuK::Rand([0; 32])),
                        _ => Step::TwoValNogood(HeuK::Rand([0; 32])),
                    };
                    out.push(d);
                }
            }
        }
        out
    }

    fn nondeterminism_is_violation(&self) -> bool {
        self.property == "C11"
    }

    fn components(&self) -> serde_json::Value {
        serde_json::json!({
            "real": ["adf_bdd::adf::Adf (every public semantics, counting and nogood entry point), adf_bdd::obdd::Bdd (operations, restrict, counting, dependency queries), serde export/import + fix_import, Bdd::from(Vec<BddNode>), Adf::from((VarContainer,Bdd,Vec<Term>)), parser, biodivine bridge — all compiled from /repo/lib/src"],
            "stub": ["crossbeam-channel (sim shim used as a plain queue: these histories are single-threaded)"],
            "not_controlled": ["std RandomState hash-iteration order: varied (two independently built objects per plan), not controlled"],
        })
    }
}

fn err_text(e: &StepErr) -> String {
    match e {
        StepErr::Panic(m) => format!("panic: {m}"),
        StepErr::Budget(n) => format!("search did not end within {n} loop iterations"),
        StepErr::Other(m) => m.clone(),
    }
}

fn answer_kind(step: &Step) -> &'static str {
    match step {
        Step::Grounded => "grounded",
        Step::Complete | Step::CompleteTake(_) => "complete",
        Step::Stable | Step::StablePrefilter | Step::StableRewrite | Step::StableTake(_) => "stable",
        Step::StableCountA | Step::StableCountB => "stable-counting",
        Step::Nogood(_) | Step::TwoValNogood(_) => "nogood",
        Step::FormulaCountsNaive | Step::FacetCountAc | Step::FacetCountGrounded => "counts",
        Step::PrintGrounded => "printed",
        Step::Paths(_) | Step::MaxDepth(_) => "paths-depth",
        Step::VarDeps(_) | Step::PassiveImpact(_) | Step::ActiveImpact(_) => "dependencies",
        Step::Cubes(..) => "cubes",
        Step::Extra(_) => "extra",
        Step::RestartJson | Step::RestartDb | Step::RestartBddJson => "restart",
        Step::FixImport => "fix_import",
        Step::SwapAc(..) => "swap",
        Step::FormulaCountsMemo => "counts",
    }
}

fn step_error(prop: &str, i: usize, step: &Step, e: &StepErr, ctx: &str, after_restart: bool) -> Option<Violation> {
    let class = match e {
        StepErr::Panic(_) => {
            if is_restart(step) {
                "restart-panicked"
            } else if after_restart {
                "panic-after-restart"
            } else {
                "panic"
            }
        }
        StepErr::Budget(_) => "non-termination",
        StepErr::Other(_) => "error",
    };
    let oracle = if prop == "C06" && !matches!(e, StepErr::Other(_)) { "no-panic" } else if matches!(e, StepErr::Other(_)) { "table-walk" } else { "no-panic" };
    Some(Violation::new(oracle, class, format!("step {i} {step:?}: {} {ctx}", err_text(e))))
}

/// A fresh object asked only question `i` of the history (after building the extra formulas
/// that question refers to, transitively).
fn fresh_answer(case: &HistCase, i: usize) -> Result<Answer, String> {
    // the object under test is, at question i, the ADF with every earlier exchange applied
    let mut spec = case.spec.clone();
    let n = spec.n();
    for s in &case.steps[..i] {
        if let Step::SwapAc(a, b) = s {
            spec.acs.swap(a % n, b % n);
        }
    }
    let mut o = Obj::fresh(&spec, case.build)?;
    // extras are referred to by their ordinal; rebuilding all earlier extras keeps ordinals
    // aligned (they are part of what the question is about, not of the history under test)
    let needs_extras = match &case.steps[i] {
        Step::Paths(r) | Step::MaxDepth(r) | Step::VarDeps(r) | Step::Cubes(r, _, _) => matches!(r, Ref::Extra(_)),
        _ => false,
    };
    if needs_extras {
        for s in &case.steps[..i] {
            if let Step::Extra(_) = s {
                o.step(s)?;
            }
        }
    }
    o.step(&case.steps[i])
}

fn canonical_verdict(o: &Obj, at: &str) -> Option<Violation> {
    let nodes = &o.adf.bdd.nodes;
    if let Err((class, m)) = canon_check(nodes) {
        return Some(Violation::new("canonical", &class, format!("{at}: {m}")));
    }
    if o.n <= 6 {
        if let Some(m) = handle_function_bijection(nodes, o.n) {
            return Some(Violation::new("canonical", "handle-function", format!("{at}: {m}")));
        }
    }
    None
}


fn ordering_of(adf: &Adf) -> (Vec<String>, Vec<(String, usize)>) {
    let names = adf.ordering.names().read().unwrap().clone();
    let mut mapping: Vec<(String, usize)> = adf.ordering.mappings().read().unwrap().iter().map(|(k, v)| (k.clone(), *v)).collect();
    mapping.sort();
    (names, mapping)
}
