//! Helpers shared by the library scenarios: table walker, canonicity check, conversions.

use adf_bdd::adf::Adf;
use adf_bdd::datatypes::{BddNode, Term, Var};
use adf_bdd::parser::AdfParser;
use refsem::{AdfSpec, Interp, V};

/// Evaluate the function a handle denotes under assignment `w` by walking the node table.
/// Trusts nothing but the `nodes` vector. `Err` if the walk leaves the table or loops.
pub fn walk(nodes: &[BddNode], t: Term, w: u32) -> Result<bool, String> {
    let mut cur = t.value();
    for _ in 0..=nodes.len() {
        if cur == 0 {
            return Ok(false);
        }
        if cur == 1 {
            return Ok(true);
        }
        let Some(n) = nodes.get(cur) else {
            return Err(format!("handle {cur} outside the table (len {})", nodes.len()));
        };
        let v = n.var().value();
        if v >= 32 {
            return Err(format!("node {cur} tests variable {v}"));
        }
        cur = if (w >> v) & 1 == 1 {
            n.hi().value()
        } else {
            n.lo().value()
        };
    }
    Err(format!("walk from {} does not reach a leaf", t.value()))
}

/// Truth table (bit w = value under assignment w) of a handle over `nvars` ≤ 6 variables.
pub fn tt(nodes: &[BddNode], t: Term, nvars: usize) -> Result<u64, String> {
    assert!(nvars <= 6);
    let mut out = 0u64;
    for w in 0..(1u32 << nvars) {
        if walk(nodes, t, w)? {
            out |= 1 << w;
        }
    }
    Ok(out)
}

pub fn tt_mask(nvars: usize) -> u64 {
    if nvars == 6 {
        u64::MAX
    } else {
        (1u64 << (1u32 << nvars)) - 1
    }
}

/// Truth table of variable `v` over `nvars` variables.
pub fn tt_var(v: usize, nvars: usize) -> u64 {
    let mut out = 0u64;
    for w in 0..(1u32 << nvars) {
        if (w >> v) & 1 == 1 {
            out |= 1 << w;
        }
    }
    out
}

/// Cofactor of a truth table.
pub fn tt_restrict(t: u64, v: usize, val: bool, nvars: usize) -> u64 {
    let mut out = 0u64;
    for w in 0..(1u32 << nvars) {
        let w2 = if val { w | (1 << v) } else { w & !(1 << v) };
        if (t >> w2) & 1 == 1 {
            out |= 1 << w;
        }
    }
    out
}

/// The structural part of "reduced, ordered, duplicate-free, constants first".
pub fn canon_check(nodes: &[BddNode]) -> Result<(), (String, String)> {
    if nodes.len() < 2 || nodes[0] != BddNode::bot_node() || nodes[1] != BddNode::top_node() {
        return Err(("constants".into(), "entries 0/1 are not the constants".into()));
    }
    let mut seen = std::collections::BTreeMap::new();
    for (i, n) in nodes.iter().enumerate().skip(2) {
        if n.var().is_constant() {
            return Err(("constants".into(), format!("entry {i} is a constant node")));
        }
        if n.lo() == n.hi() {
            return Err(("reduced".into(), format!("node {i} has equal branches: {n}")));
        }
        for c in [n.lo(), n.hi()] {
            if c.value() >= i {
                return Err((
                    "ordered".into(),
                    format!("node {i} points to a later or own entry {}", c.value()),
                ));
            }
            let cn = nodes[c.value()];
            if !cn.var().is_constant() && cn.var() <= n.var() {
                return Err((
                    "ordered".into(),
                    format!("node {i} ({n}) has child {} testing an earlier/equal variable", c.value()),
                ));
            }
        }
        if let Some(j) = seen.insert((n.var(), n.lo(), n.hi()), i) {
            return Err(("duplicate".into(), format!("entries {j} and {i} are both {n}")));
        }
    }
    Ok(())
}

pub fn term_to_v(t: &Term) -> V {
    if t.is_truth_value() {
        if t.is_true() {
            V::T
        } else {
            V::F
        }
    } else {
        V::U
    }
}

pub fn to_interp(ts: &[Term]) -> Interp {
    ts.iter().map(term_to_v).collect()
}

#[derive(Clone, Copy, Debug, PartialEq, Eq, serde::Serialize, serde::Deserialize, Hash)]
pub enum Build {
    /// `Adf::from_parser`
    Native,
    /// biodivine bridge without pre-grounding (`hybrid_step_opt(false)`)
    Bridged,
    /// biodivine bridge with pre-grounding (`hybrid_step`)
    BridgedGrounded,
}

pub fn build_adf(spec: &AdfSpec, how: Build) -> Result<Adf, String> {
    let text = spec.text();
    let parser = AdfParser::default();
    parser
        .parse()(&text)
        .map_err(|e| format!("generated text rejected by the parser: {e}"))?;
    Ok(match how {
        Build::Native => Adf::from_parser(&parser),
        Build::Bridged => adf_bdd::adfbiodivine::Adf::from_parser(&parser).hybrid_step_opt(false),
        Build::BridgedGrounded => adf_bdd::adfbiodivine::Adf::from_parser(&parser).hybrid_step(),
    })
}

/// The biodivine object for the same text (what a bridged `Adf` is instantiated from).
pub fn build_bio(spec: &AdfSpec) -> Result<adf_bdd::adfbiodivine::Adf, String> {
    let text = spec.text();
    let parser = AdfParser::default();
    parser
        .parse()(&text)
        .map_err(|e| format!("generated text rejected by the parser: {e}"))?;
    Ok(adf_bdd::adfbiodivine::Adf::from_parser(&parser))
}

#[allow(dead_code)]
pub fn var(i: usize) -> Var {
    Var(i)
}

/// Compact rendering of a node table for messages: `[v0:0/1 v1:2/1 ...]` (constants omitted).
pub fn fmt_nodes(nodes: &[BddNode]) -> String {
    if nodes.len() > 64 {
        return format!("[{} entries, last {}]", nodes.len(), nodes.last().map(|n| format!("v{}:{}/{}", n.var().value(), n.lo().value(), n.hi().value())).unwrap_or_default());
    }
    let mut s = String::from("[");
    for (i, n) in nodes.iter().enumerate() {
        if i < 2 && n.var().is_constant() {
            continue;
        }
        if s.len() > 1 {
            s.push(' ');
        }
        if n.var().is_constant() {
            s.push_str(&format!("{i}=const!"));
        } else {
            s.push_str(&format!("{i}=v{}:{}/{}", n.var().value(), n.lo().value(), n.hi().value()));
        }
    }
    s.push(']');
    s
}

/// A persistence round trip of a freshly built object: 1 = JSON export, import and the documented
/// repair step; 2 = rebuild from node list, ordering and roots (what the web service's database
/// layer does).
pub fn round_trip(adf: Adf, kind: u8) -> Result<Adf, String> {
    if kind == 1 {
        let text = serde_json::to_string(&adf).map_err(|e| format!("export failed: {e}"))?;
        drop(adf);
        let mut back: Adf = serde_json::from_str(&text).map_err(|e| format!("import failed: {e}"))?;
        back.fix_import();
        Ok(back)
    } else {
        let names = adf.ordering.names().read().unwrap().clone();
        let mapping = adf.ordering.mappings().read().unwrap().clone();
        let nodes = adf.bdd.nodes.clone();
        let ac = adf.ac.clone();
        drop(adf);
        let bdd = adf_bdd::obdd::Bdd::from(nodes);
        let vc = adf_bdd::datatypes::adf::VarContainer::from_parser(std::sync::Arc::new(std::sync::RwLock::new(names)), std::sync::Arc::new(std::sync::RwLock::new(mapping)));
        Ok(Adf::from((vc, bdd, ac)))
    }
}
