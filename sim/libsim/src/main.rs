//! libsim — deterministic simulation of the library surfaces of adf-obdd
//! (streaming mirror, nogood search hand-off, call histories with restarts).
//! Command line: see simcore::cli.

mod common;
mod history;
mod mirror;
mod nogood;

use simcore::cli::{cmd_replay, cmd_run, Dyn};

fn lookup(scenario: &str, property: &str) -> Option<Box<dyn Dyn>> {
    match (scenario, property) {
        ("mirror", "C19") => Some(Box::new(mirror::Mirror { property: "C19" })),
        ("nogood", "C05") => Some(Box::new(nogood::Nogood)),
        ("history", "C11") => Some(Box::new(history::History { property: "C11" })),
        ("history", "C14") => Some(Box::new(history::History { property: "C14" })),
        ("history", "C06") => Some(Box::new(history::History { property: "C06" })),
        ("mirror", "C06") => Some(Box::new(mirror::Mirror { property: "C06" })),
        _ => None,
    }
}

fn main() {
    simcore::panics::install_quiet_hook();
    let args: Vec<String> = std::env::args().collect();
    let code = match args.get(1).map(|s| s.as_str()) {
        Some("run") => cmd_run("libsim", &args[2..], &lookup),
        Some("replay") => cmd_replay(&args[2..], &lookup),
        Some("selftest") => cmd_selftest(),
        _ => {
            eprintln!("usage: libsim run|replay|selftest ...");
            2
        }
    };
    std::process::exit(code);
}

fn cmd_selftest() -> i32 {
    0
}
