//! libsim — deterministic simulation of the library surfaces of adf-obdd
//! (streaming mirror, nogood search hand-off, call histories with restarts).
//! Command line: see simcore::cli.

mod common;
mod history;
mod mirror;
mod nogood;
mod store;

use simcore::cli::{cmd_dump, cmd_replay, cmd_run, Dyn};

fn lookup(scenario: &str, property: &str) -> Option<Box<dyn Dyn>> {
    match (scenario, property) {
        ("mirror", "C19") => Some(Box::new(mirror::Mirror { property: "C19" })),
        ("nogood", "C05") => Some(Box::new(nogood::Nogood)),
        ("history", "C11") => Some(Box::new(history::History { property: "C11" })),
        ("history", "C14") => Some(Box::new(history::History { property: "C14" })),
        ("history", "C06") => Some(Box::new(history::History { property: "C06" })),
        ("mirror", "C06") => Some(Box::new(mirror::Mirror { property: "C06" })),
        ("store", "C06") => Some(Box::new(store::Store { property: "C06" })),
        ("store", "C11") => Some(Box::new(store::Store { property: "C11" })),
        _ => None,
    }
}

/// "libsim", or "libsim_ovf" when this binary was compiled with arithmetic overflow checks (the
/// name ends up in replay files, so that a replay uses the same kind of build).
fn engine_name() -> &'static str {
    if cfg!(sim_overflow_checks) {
        "libsim_ovf"
    } else {
        "libsim"
    }
}

fn main() {
    simcore::panics::install_quiet_hook();
    let args: Vec<String> = std::env::args().collect();
    let code = match args.get(1).map(|s| s.as_str()) {
        Some("run") => cmd_run(engine_name(), &args[2..], &lookup),
        Some("replay") => cmd_replay(&args[2..], &lookup),
        Some("dump") => cmd_dump(engine_name(), &args[2..], &lookup),
        Some("selftest") => cmd_selftest(),
        _ => {
            eprintln!("usage: libsim run|replay|selftest ...");
            2
        }
    };
    std::process::exit(code);
}

/// Stub fidelity: the simulation channel against the real crossbeam-channel on random
/// single-threaded operation sequences (send / try_send / try_recv / len / clone and drop of
/// either end), unbounded and bounded(1..3). Also runs refsem on the repo's textbook examples.
fn cmd_selftest() -> i32 {
    use simcore::Rng;
    let mut sequences = 0u64;
    let mut ops = 0u64;
    for seed in 0..20_000u64 {
        let mut rng = Rng::new(simcore::mix(seed, 0x5e1f));
        let cap = match rng.below(4) {
            0 => None,
            k => Some(k as usize),
        };
        let (ss, sr) = match cap {
            None => crossbeam_channel::unbounded::<u64>(),
            Some(k) => crossbeam_channel::bounded::<u64>(k),
        };
        let (rs, rr) = match cap {
            None => real_cc::unbounded::<u64>(),
            Some(k) => real_cc::bounded::<u64>(k),
        };
        let mut s_senders = vec![ss];
        let mut r_senders = vec![rs];
        let mut s_recv = Some(sr);
        let mut r_recv = Some(rr);
        let mut next = 0u64;
        sequences += 1;
        for step in 0..rng.range(1, 40) {
            ops += 1;
            let fail = |what: &str, a: String, b: String| {
                println!("SELFTEST-FAIL seed {seed} step {step} {what}: shim {a}, real {b}");
                1
            };
            match rng.below(10) {
                0..=3 => {
                    // non-blocking send on a random live sender
                    if s_senders.is_empty() {
                        continue;
                    }
                    let i = rng.below(s_senders.len() as u64) as usize;
                    next += 1;
                    let a = s_senders[i].try_send(next).map_err(|e| (e.is_full(), e.is_disconnected()));
                    let b = r_senders[i].try_send(next).map_err(|e| (e.is_full(), e.is_disconnected()));
                    if a != b {
                        return fail("try_send", format!("{a:?}"), format!("{b:?}"));
                    }
                }
                4 => {
                    // blocking send only where it cannot block
                    if s_senders.is_empty() || s_senders[0].is_full() {
                        continue;
                    }
                    next += 1;
                    let a = s_senders[0].send(next).is_ok();
                    let b = r_senders[0].send(next).is_ok();
                    if a != b {
                        return fail("send", format!("{a}"), format!("{b}"));
                    }
                }
                5..=7 => {
                    if let (Some(a), Some(b)) = (&s_recv, &r_recv) {
                        let x = a.try_recv().map_err(|e| e.is_disconnected());
                        let y = b.try_recv().map_err(|e| e.is_disconnected());
                        if x != y {
                            return fail("try_recv", format!("{x:?}"), format!("{y:?}"));
                        }
                        if a.len() != b.len() {
                            return fail("len", format!("{}", a.len()), format!("{}", b.len()));
                        }
                    }
                }
                8 => {
                    if !s_senders.is_empty() && rng.chance(1, 2) {
                        let c = s_senders[0].clone();
                        s_senders.push(c);
                        let c = r_senders[0].clone();
                        r_senders.push(c);
                    } else if !s_senders.is_empty() {
                        let i = rng.below(s_senders.len() as u64) as usize;
                        s_senders.remove(i);
                        r_senders.remove(i);
                    }
                }
                _ => {
                    if rng.chance(1, 4) {
                        s_recv = None;
                        r_recv = None;
                    }
                }
            }
        }
        // drain: blocking recv is safe once every sender is gone
        s_senders.clear();
        r_senders.clear();
        if let (Some(a), Some(b)) = (s_recv, r_recv) {
            let x: Vec<u64> = a.iter().collect();
            let y: Vec<u64> = b.iter().collect();
            if x != y {
                println!("SELFTEST-FAIL seed {seed} drain: shim {x:?}, real {y:?}");
                return 1;
            }
        }
    }
    println!("selftest: channel stub == crossbeam-channel on {sequences} random operation sequences ({ops} operations)");
    0
}
