//! C05: the nogood-learning search under every heuristic (built-in, `Rand` under a drawn seed,
//! adversarial custom heuristic answering from the decision source), through every entry point
//! (iterator, stable channel, two-valued channel, two consecutive calls on clones of one
//! sender), over unbounded / bounded(0|1|2) channels, with solver and consumer as simulated
//! threads. Termination is decided in counted loop iterations (hook `adf_bdd::verif`), channel
//! closure as "the consumer loop ends, otherwise the scheduler reports a deadlock".

use crate::common::{build_adf, to_interp, Build};
use adf_bdd::adf::heuristics::Heuristic;
use adf_bdd::adf::Adf;
use adf_bdd::datatypes::{Term, Var};
use refsem::{show, AdfSpec, Interp, Sem, V};
use serde::{Deserialize, Serialize};
use simcore::batch::{RunResult, Scenario, Stats};
use simcore::report::Violation;
use simcore::sched::{self, Abort};
use simcore::{Decisions, Fnv, Rng};
use std::sync::Mutex;

pub const TICK_BUDGET: u64 = 200_000;

#[derive(Clone, Debug, Serialize, Deserialize, PartialEq, Eq, Hash)]
pub enum Heu {
    Simple,
    MinModMinPathsMaxVarImp,
    MinModMaxVarImpMinPaths,
    Rand([u8; 32]),
    /// answers every call from the decision source: any undecided statement, any truth value
    Adversary,
}

#[derive(Clone, Copy, Debug, Serialize, Deserialize, PartialEq, Eq, Hash)]
pub enum Entry {
    Iterator,
    StableChannel,
    TwoValChannel,
    /// `stable_nogood_channel(h, s.clone())` then `two_val_nogood_channel(h, s)`
    TwoCalls,
}

#[derive(Clone, Copy, Debug, Serialize, Deserialize, PartialEq, Eq, Hash)]
pub enum Chan {
    Unbounded,
    Bounded(usize),
}

#[derive(Clone, Debug, Serialize, Deserialize, PartialEq, Eq, Hash)]
pub struct NogoodCase {
    pub spec: AdfSpec,
    pub build: Build,
    pub heu: Heu,
    pub entry: Entry,
    pub chan: Chan,
    /// the Adf object is kept alive until the consumer loop has ended (compute, then drain —
    /// the sender must have been dropped by the call itself, not by the object's destructor)
    #[serde(default)]
    pub adf_outlives_consumer: bool,
    /// the object the search runs on went through a persistence round trip first:
    /// 1 = JSON export, import, `fix_import`; 2 = rebuilt from node list, ordering and roots
    #[serde(default)]
    pub imported: u8,
}

pub struct Nogood;

fn adversary(_adf: &Adf, interp: &[Term]) -> Option<(Var, Term)> {
    let und: Vec<usize> = interp
        .iter()
        .enumerate()
        .filter(|(_, t)| !t.is_truth_value())
        .map(|(i, _)| i)
        .collect();
    if und.is_empty() {
        return None;
    }
    let (w, _) = sched::current().expect("adversary heuristic outside a simulation");
    let k = w.choose("heu-var", und.len() as u64) as usize;
    let val = w.choose("heu-val", 2) == 1;
    ADV_CALLS.with(|c| c.set(c.get() + 1));
    Some((Var(und[k]), if val { Term::TOP } else { Term::BOT }))
}

thread_local! {
    static ADV_CALLS: std::cell::Cell<u64> = const { std::cell::Cell::new(0) };
}

#[derive(Default)]
struct SolverOut {
    ticks: u64,
    adv_calls: u64,
    iterator_result: Option<Vec<Vec<Term>>>,
    build_error: Option<String>,
}

fn multiset(v: &[Interp]) -> Vec<Interp> {
    let mut v = v.to_vec();
    v.sort();
    v
}

fn diff_class(got: &[Interp], want: &[Interp]) -> Option<(&'static str, String)> {
    let g = multiset(got);
    let w = multiset(want);
    if g == w {
        return None;
    }
    let mut dedup = g.clone();
    dedup.dedup();
    if dedup.len() != g.len() && dedup == w {
        return Some(("duplicate-model", format!("got {:?}, expected {:?}", g.iter().map(|x| show(x)).collect::<Vec<_>>(), w.iter().map(|x| show(x)).collect::<Vec<_>>())));
    }
    let missing: Vec<String> = w.iter().filter(|x| !g.contains(x)).map(|x| show(x)).collect();
    let extra: Vec<String> = g.iter().filter(|x| !w.contains(x)).map(|x| show(x)).collect();
    let class = if !missing.is_empty() && extra.is_empty() {
        "missing-model"
    } else if missing.is_empty() && !extra.is_empty() {
        "invented-model"
    } else {
        "wrong-models"
    };
    Some((class, format!("missing {missing:?}, not expected {extra:?}, delivered {} expected {}", g.len(), w.len())))
}

impl Scenario for Nogood {
    type Case = NogoodCase;
    fn name(&self) -> &'static str {
        "nogood"
    }
    fn property(&self) -> &'static str {
        "C05"
    }
    fn rule(&self) -> String {
        "case = ADF (1-6 statements, depth<=3, native/bridged/bridged+pre-grounded) x heuristic (Simple, both counting, Rand with drawn 32-byte seed, adversary answering every call from the decision source) x entry point (iterator, stable channel, two-valued channel, two calls on clones of one sender) x channel (unbounded, bounded 0/1/2); schedule = solver/consumer interleaving at every channel operation + every adversary answer. Non-trivial: the grounded interpretation leaves a statement undecided (the search must branch at least once). Distinct = distinct (case hash, decision signature + delivery order) pairs".into()
    }

    fn generate(&self, rng: &mut Rng, thorough: bool) -> NogoodCase {
        if rng.chance(1, if thorough { 1500 } else { 3000 }) {
            // many statements: 65-72, all facts except an even loop at the front and possibly one
            // at the back — models that differ only in statements beyond the 64th from the end
            let n = *rng.pick(&[65usize, 66, 70, 72]);
            let names: Vec<String> = (0..n).map(|i| format!("s{i}")).collect();
            let back_loop = rng.chance(1, 2);
            // loops sit on an even index and its successor (members refer to each other by i ^ 1)
            let b = (n - 2) & !1usize;
            let acs = (0..n)
                .map(|i| {
                    if i < 2 || (back_loop && (i == b || i == b + 1)) {
                        refsem::F::Not(Box::new(refsem::F::Atom(i ^ 1)))
                    } else if (i * 7 + n) % 3 == 0 {
                        refsem::F::Bot
                    } else {
                        refsem::F::Top
                    }
                })
                .collect();
            let spec = AdfSpec { names, acs, ac_order: (0..n).collect() };
            let heu = match rng.below(4) {
                0 => Heu::Simple,
                1 => Heu::Rand(rng.bytes32()),
                2 => Heu::MinModMaxVarImpMinPaths,
                _ => Heu::Adversary,
            };
            let entry = match rng.below(4) {
                0 => Entry::Iterator,
                1 => Entry::StableChannel,
                2 => Entry::TwoValChannel,
                _ => Entry::TwoCalls,
            };
            return NogoodCase { spec, build: if rng.chance(1, 3) { Build::Bridged } else { Build::Native }, heu, entry, chan: Chan::Unbounded, adf_outlives_consumer: rng.chance(1, 2), imported: 0 };
        }
        if rng.chance(1, if thorough { 1500 } else { 3000 }) {
            // many statements, sparse: a small random ADF (2-4 statements) embedded into 66-130
            // facts, preferably at positions that are congruent modulo 64 (or 32, 128) - whatever
            // is keyed by a machine-word bit set of statements cannot tell them apart
            let n = *rng.pick(&[66usize, 70, 72, 130]);
            let k = rng.range(2, 4) as usize;
            let depth = rng.range(1, 2) as u32;
            let small = AdfSpec::gen(rng, k, depth, "s");
            let base = rng.below((n - 64) as u64) as usize;
            let mut positions = vec![base, base + 64];
            while positions.len() < k {
                let p = match rng.below(3) {
                    0 if base + 32 < n => base + 32,
                    1 if n > 128 && base + 128 < n => base + 128,
                    _ => rng.below(n as u64) as usize,
                };
                if !positions.contains(&p) {
                    positions.push(p);
                }
            }
            if rng.chance(1, 2) {
                positions.reverse();
            }
            let salt = rng.below(7) as usize;
            let spec = refsem::Sparse::embed(&small, &positions, n, &|i| (i * 5 + salt) % 3 != 0);
            let heu = match rng.below(5) {
                0 => Heu::Simple,
                1 => Heu::Rand(rng.bytes32()),
                2 => Heu::MinModMaxVarImpMinPaths,
                3 => Heu::MinModMinPathsMaxVarImp,
                _ => Heu::Adversary,
            };
            let entry = match rng.below(4) {
                0 => Entry::Iterator,
                1 => Entry::StableChannel,
                2 => Entry::TwoValChannel,
                _ => Entry::TwoCalls,
            };
            return NogoodCase { spec, build: if rng.chance(1, 4) { Build::Bridged } else { Build::Native }, heu, entry, chan: Chan::Unbounded, adf_outlives_consumer: rng.chance(1, 2), imported: 0 };
        }
        if rng.chance(1, if thorough { 3000 } else { 12000 }) {
            // many models: k independent even loops a_i = neg(b_i), b_i = neg(a_i) have 2^k
            // stable models (= two-valued models); more than 128 from k = 8
            let k = if thorough { rng.range(7, 9) } else { 8 } as usize;
            let n = 2 * k;
            let names: Vec<String> = (0..n).map(|i| format!("s{i}")).collect();
            let acs = (0..n).map(|i| refsem::F::Not(Box::new(refsem::F::Atom(i ^ 1)))).collect();
            let spec = AdfSpec { names, acs, ac_order: (0..n).collect() };
            let heu = match rng.below(3) {
                0 => Heu::Simple,
                1 => Heu::Rand(rng.bytes32()),
                _ => Heu::Adversary,
            };
            let entry = match rng.below(3) {
                0 | 1 => Entry::Iterator,
                _ => Entry::StableChannel,
            };
            return NogoodCase { spec, build: Build::Native, heu, entry, chan: Chan::Unbounded, adf_outlives_consumer: rng.chance(1, 2), imported: 0 };
        }
        if rng.chance(1, if thorough { 2000 } else { 10000 }) {
            // long searches: 2^n leaves, more than 500 learned nogoods of one arity from n = 10
            // (the library's nogood store is scanned linearly, so these runs take about a second)
            let n = if thorough { rng.range(9, 11) } else { 10 } as usize;
            let names: Vec<String> = (0..n).map(|i| format!("s{i}")).collect();
            let spec = AdfSpec { names, acs: (0..n).map(refsem::F::Atom).collect(), ac_order: (0..n).collect() };
            let heu = match rng.below(4) {
                0 => Heu::Simple,
                1 => Heu::Rand(rng.bytes32()),
                2 => Heu::MinModMinPathsMaxVarImp,
                _ => Heu::Adversary,
            };
            let entry = match rng.below(3) {
                0 => Entry::Iterator,
                1 => Entry::StableChannel,
                _ => Entry::TwoValChannel,
            };
            return NogoodCase { spec, build: Build::Native, heu, entry, chan: if rng.chance(1, 2) { Chan::Unbounded } else { Chan::Bounded(rng.below(3) as usize) }, adf_outlives_consumer: rng.chance(1, 2), imported: 0 };
        }
        let n = if rng.chance(1, 12) { 1 } else { rng.range(2, if thorough { 7 } else { 6 }) } as usize;
        // a share of structured worst cases: every statement supports only itself (2^n models)
        let spec = if rng.chance(1, 25) {
            let mut s = AdfSpec::gen(rng, n, 1, "s");
            for i in 0..n {
                s.acs[i] = refsem::F::Atom(i);
            }
            s
        } else {
            let depth = rng.range(1, 3) as u32;
            AdfSpec::gen(rng, n, depth, "s")
        };
        let build = match rng.below(4) {
            0 => Build::Bridged,
            1 => Build::BridgedGrounded,
            _ => Build::Native,
        };
        let heu = match rng.below(10) {
            0 => Heu::Simple,
            1 => Heu::MinModMinPathsMaxVarImp,
            2 => Heu::MinModMaxVarImpMinPaths,
            3..=5 => Heu::Rand(rng.bytes32()),
            _ => Heu::Adversary,
        };
        let entry = match rng.below(6) {
            0 | 1 => Entry::Iterator,
            2 | 3 => Entry::StableChannel,
            4 => Entry::TwoValChannel,
            _ => Entry::TwoCalls,
        };
        let chan = match rng.below(5) {
            0 | 1 => Chan::Unbounded,
            2 => Chan::Bounded(0),
            3 => Chan::Bounded(1),
            _ => Chan::Bounded(2),
        };
        NogoodCase {
            spec,
            build,
            heu,
            entry,
            chan,
            adf_outlives_consumer: rng.chance(1, 2),
            // drawn last
            imported: if rng.chance(1, 5) { 1 + rng.below(2) as u8 } else { 0 },
        }
    }

    fn execute(&self, case: &NogoodCase, dec: Decisions) -> RunResult {
        crossbeam_channel::sim_reset_ids();
        let mut stats = Stats::default();
        let n = case.spec.n();
        let self_support = n > 7 && n <= 60 && case.spec.acs.iter().enumerate().all(|(i, f)| *f == refsem::F::Atom(i));
        // every condition is a fact or the negation of its aligned partner, whose condition is
        // the negation of this statement
        let facts_family = n > 60
            && case.spec.acs.iter().enumerate().all(|(i, f)| match f {
                refsem::F::Top | refsem::F::Bot => true,
                refsem::F::Not(inner) => (i ^ 1) < n && **inner == refsem::F::Atom(i ^ 1) && case.spec.acs[i ^ 1] == refsem::F::Not(Box::new(refsem::F::Atom(i))),
                _ => false,
            });
        let even_loops = !facts_family && n > 7 && n % 2 == 0 && case.spec.acs.iter().enumerate().all(|(i, f)| *f == refsem::F::Not(Box::new(refsem::F::Atom(i ^ 1))));
        // mostly facts, at most six other statements: the definitional answers are those of the
        // small ADF obtained by substituting the facts, extended by the facts
        let sparse = if n > 7 && !facts_family && !even_loops && !self_support { refsem::Sparse::of(&case.spec, 6) } else { None };
        if n > 7 && !facts_family && !even_loops && !self_support && sparse.is_none() {
            // a large instance outside the families with closed-form answers (can only come from
            // a shrinking candidate): there is no oracle for it, so it shows nothing
            return RunResult { violation: None, decisions: dec.values(), signature: 0, log_hash: 0, nontrivial: false, stats };
        }
        let (want_stable, want_two, grounded_has_und) = if let Some(sp) = &sparse {
            stats.inc("runs_sparse_large_family");
            let sem = Sem::new(&sp.small);
            (
                sem.stable().iter().map(|m| sp.extend(&case.spec, m)).collect(),
                sem.two_valued_models().iter().map(|m| sp.extend(&case.spec, m)).collect(),
                sem.grounded().iter().any(|v| *v == V::U),
            )
        } else if facts_family {
            // closed form: facts are what they say; of each even loop exactly one member is true
            let is_loop = |i: usize| matches!(case.spec.acs[i], refsem::F::Not(_));
            let loops: Vec<usize> = (0..n).filter(|i| is_loop(*i) && i % 2 == 0).collect();
            let all: Vec<Interp> = (0..(1u32 << loops.len()))
                .map(|w| {
                    (0..n)
                        .map(|s| {
                            if is_loop(s) {
                                let k = loops.iter().position(|l| *l == (s & !1)).unwrap();
                                if ((w >> k) & 1 == 1) == (s % 2 == 0) { V::T } else { V::F }
                            } else if case.spec.acs[s] == refsem::F::Top {
                                V::T
                            } else {
                                V::F
                            }
                        })
                        .collect()
                })
                .collect();
            (all.clone(), all, true)
        } else if even_loops {
            // closed form: one of each pair is true, the other false; all of them are stable
            let k = n / 2;
            let all: Vec<Interp> = (0..(1u32 << k))
                .map(|w| (0..n).map(|s| if ((w >> (s / 2)) & 1 == 1) == (s % 2 == 0) { V::T } else { V::F }).collect())
                .collect();
            (all.clone(), all, true)
        } else if self_support {
            // large structured family (every statement supports only itself): the definitional
            // answers are known in closed form — every assignment is a two-valued model, only
            // the all-false one is stable — so no 3^n / 4^n brute force is needed
            let two: Vec<Interp> = (0..(1u32 << n)).map(|w| (0..n).map(|s| if (w >> s) & 1 == 1 { V::T } else { V::F }).collect()).collect();
            (vec![vec![V::F; n]], two, true)
        } else {
            let sem = Sem::new(&case.spec);
            (sem.stable(), sem.two_valued_models(), sem.grounded().iter().any(|v| *v == V::U))
        };

        let solver_out: Mutex<SolverOut> = Mutex::new(SolverOut::default());
        let consumed: Mutex<Vec<Vec<Term>>> = Mutex::new(Vec::new());
        let consumer_finished = std::sync::atomic::AtomicBool::new(false);

        let (sender, receiver) = match case.chan {
            Chan::Unbounded => crossbeam_channel::unbounded::<Vec<Term>>(),
            Chan::Bounded(k) => crossbeam_channel::bounded::<Vec<Term>>(k),
        };
        let probe = sender.sim_probe();
        let (done_tx, done_rx) = crossbeam_channel::unbounded::<()>();
        let mut bodies: Vec<Box<dyn FnOnce() + Send + '_>> = Vec::new();
        let with_consumer = case.entry != Entry::Iterator;
        {
            let solver_out = &solver_out;
            let case = &case;
            let sender = if with_consumer { Some(sender) } else { drop(sender); None };
            bodies.push(Box::new(move || {
                struct Fin<'a>(&'a Mutex<SolverOut>);
                impl Drop for Fin<'_> {
                    fn drop(&mut self) {
                        let mut o = self.0.lock().unwrap();
                        o.ticks = adf_bdd::verif::ticks();
                        o.adv_calls = ADV_CALLS.with(|c| c.get());
                    }
                }
                ADV_CALLS.with(|c| c.set(0));
                // the measured maximum is 3*2^n iterations (6*2^n for two consecutive calls); the
                // large structured family gets ten times that instead of the flat budget because
                // its iterations are slow (linear scan of thousands of learned nogoods)
                let n = case.spec.n();
                adf_bdd::verif::arm(if n > 60 { TICK_BUDGET } else if n > 7 { 30 * (1u64 << n) } else { TICK_BUDGET });
                let _fin = Fin(solver_out);
                let mut adf = match build_adf(&case.spec, case.build) {
                    Ok(a) => a,
                    Err(e) => {
                        solver_out.lock().unwrap().build_error = Some(e);
                        return;
                    }
                };
                if case.imported != 0 {
                    adf = match crate::common::round_trip(adf, case.imported) {
                        Ok(a) => a,
                        Err(e) => {
                            solver_out.lock().unwrap().build_error = Some(e);
                            return;
                        }
                    };
                }
                let adv: &(dyn Fn(&Adf, &[Term]) -> Option<(Var, Term)> + Sync) = &adversary;
                let heu = match &case.heu {
                    Heu::Simple => Heuristic::Simple,
                    Heu::MinModMinPathsMaxVarImp => Heuristic::MinModMinPathsMaxVarImp,
                    Heu::MinModMaxVarImpMinPaths => Heuristic::MinModMaxVarImpMinPaths,
                    Heu::Rand(seed) => {
                        adf.seed(*seed);
                        Heuristic::Rand
                    }
                    Heu::Adversary => Heuristic::Custom(adv),
                };
                match case.entry {
                    Entry::Iterator => {
                        let r: Vec<Vec<Term>> = adf.stable_nogood(heu).collect();
                        solver_out.lock().unwrap().iterator_result = Some(r);
                    }
                    Entry::StableChannel => adf.stable_nogood_channel(heu, sender.unwrap()),
                    Entry::TwoValChannel => adf.two_val_nogood_channel(heu, sender.unwrap()),
                    Entry::TwoCalls => {
                        let s = sender.unwrap();
                        adf.stable_nogood_channel(heu, s.clone());
                        adf.two_val_nogood_channel(heu, s);
                    }
                }
                if case.adf_outlives_consumer && case.entry != Entry::Iterator {
                    // wait (as a simulated thread) for the consumer loop to end while `adf` is
                    // still alive; if the call kept a clone of the sender somewhere in the
                    // object, everybody is blocked now and the scheduler says so
                    let _ = done_rx.recv();
                }
                drop(adf);
            }));
        }
        if with_consumer {
            let consumed = &consumed;
            let consumer_finished = &consumer_finished;
            bodies.push(Box::new(move || {
                for m in receiver {
                    consumed.lock().unwrap().push(m);
                }
                consumer_finished.store(true, std::sync::atomic::Ordering::SeqCst);
                let _ = done_tx.send(());
            }));
        } else {
            drop(receiver);
            drop(done_tx);
        }

        let cfg = sched::Config {
            max_steps: 100_000,
            keep: (1, 2),
        };
        let out = sched::run(dec, &cfg, bodies);
        let so = solver_out.into_inner().unwrap();
        let consumed = consumed.into_inner().unwrap();
        stats.add("loop_iterations", so.ticks);
        stats.max("max_loop_iterations", so.ticks);
        stats.max(&format!("max_loop_iterations_n{}", case.spec.n()), so.ticks);
        stats.add("adversary_answers", so.adv_calls);
        stats.add("context_switches", out.switches);
        stats.add("blocked_waits", out.blocks);
        stats.add("messages_delivered", consumed.len() as u64);
        stats.inc(&format!("heuristic_{}", match case.heu { Heu::Simple => "simple", Heu::MinModMinPathsMaxVarImp => "minpaths", Heu::MinModMaxVarImpMinPaths => "maxvarimp", Heu::Rand(_) => "rand", Heu::Adversary => "adversary" }));
        stats.inc(&format!("entry_{:?}", case.entry));
        if with_consumer {
            stats.inc(&format!("channel_{}", match case.chan { Chan::Unbounded => "unbounded".to_string(), Chan::Bounded(k) => format!("bounded{k}") }));
        }
        if so.ticks * 100 > TICK_BUDGET && case.spec.n() <= 7 {
            stats.inc("runs_above_1pct_of_budget");
        }

        let delivered: Vec<Vec<Term>> = match case.entry {
            Entry::Iterator => so.iterator_result.clone().unwrap_or_default(),
            _ => consumed.clone(),
        };
        let mut sig = Fnv::new();
        sig.u64(out.decisions.signature()).u64(so.ticks);
        for m in &delivered {
            for t in m {
                sig.u64(t.value() as u64);
            }
            sig.u64(u64::MAX);
        }
        let mut lh = Fnv::new();
        lh.u64(out.log_signature()).u64(sig.finish());
        let decisions = out.decisions.values();
        let mk = |violation: Option<Violation>, stats: Stats| RunResult {
            violation,
            decisions: decisions.clone(),
            signature: sig.finish(),
            log_hash: lh.finish(),
            nontrivial: grounded_has_und,
            stats,
        };
        let v = |o: &str, c: &str, m: String| Some(Violation::new(o, c, m));
        let ctx = format!("[{} | {:?}{} {:?} {:?} {:?}]", case.spec.text(), case.build, ["", "+json-round-trip", "+node-list-rebuild"][case.imported.min(2) as usize], heu_name(&case.heu), case.entry, case.chan);

        if let Some(e) = so.build_error {
            return mk(v("harness", "build", e), stats);
        }
        // termination first: a budget overrun explains everything else
        if let Err(p) = &out.threads[0] {
            if let Some(b) = p.downcast_ref::<adf_bdd::verif::BudgetExceeded>() {
                return mk(v("termination", "loop-budget-exceeded", format!("{} loop iterations without finishing {ctx}", b.ticks)), stats);
            }
        }
        if let Some(a) = &out.abort {
            return match a {
                Abort::Deadlock(b) => {
                    let closed = probe.senders() == 0;
                    let class = if !closed && out.threads[0].is_ok() { "sender-not-dropped" } else { "deadlock" };
                    mk(v("channel-closure", class, format!("consumer loop cannot end: blocked {b:?}, live senders {} {ctx}", probe.senders())), stats)
                }
                Abort::StepLimit(n) => mk(v("termination", "step-limit", format!("{n} scheduling steps {ctx}")), stats),
            };
        }
        for tid in 0..out.threads.len() {
            if let Some(m) = out.thread_panic_message(tid) {
                return mk(v("no-panic", if tid == 0 { "solver" } else { "consumer" }, format!("{m} {ctx}")), stats);
            }
        }
        if with_consumer && !consumer_finished.load(std::sync::atomic::Ordering::SeqCst) {
            return mk(v("channel-closure", "consumer-not-finished", ctx), stats);
        }
        if delivered.iter().any(|m| m.len() != case.spec.n() || m.iter().any(|t| !t.is_truth_value())) {
            return mk(v("multiset", "not-two-valued", format!("{delivered:?} {ctx}")), stats);
        }
        let got: Vec<Interp> = delivered.iter().map(|m| to_interp(m)).collect();
        let verdict = match case.entry {
            Entry::Iterator | Entry::StableChannel => diff_class(&got, &want_stable),
            Entry::TwoValChannel => diff_class(&got, &want_two),
            Entry::TwoCalls => {
                // FIFO: the first call's models arrive before the second call's
                let k = want_stable.len().min(got.len());
                diff_class(&got[..k], &want_stable).or_else(|| diff_class(&got[k..], &want_two))
            }
        };
        if let Some((class, m)) = verdict {
            return mk(v("multiset", class, format!("{m} {ctx}")), stats);
        }
        mk(None, stats)
    }

    fn simplify(&self, c: &NogoodCase) -> Vec<NogoodCase> {
        let mut out = Vec::new();
        if c.entry != Entry::Iterator {
            let mut d = c.clone();
            d.entry = Entry::Iterator;
            out.push(d);
        }
        if c.entry == Entry::TwoCalls {
            for e in [Entry::StableChannel, Entry::TwoValChannel] {
                let mut d = c.clone();
                d.entry = e;
                out.push(d);
            }
        }
        if c.chan != Chan::Unbounded {
            let mut d = c.clone();
            d.chan = Chan::Unbounded;
            out.push(d);
        }
        if c.adf_outlives_consumer {
            let mut d = c.clone();
            d.adf_outlives_consumer = false;
            out.push(d);
        }
        if c.build != Build::Native {
            let mut d = c.clone();
            d.build = Build::Native;
            out.push(d);
        }
        if c.imported != 0 {
            let mut d = c.clone();
            d.imported = 0;
            out.push(d);
        }
        if c.heu != Heu::Simple && !matches!(c.heu, Heu::Rand(_)) {
            let mut d = c.clone();
            d.heu = Heu::Simple;
            out.push(d);
        }
        if let Heu::Rand(seed) = &c.heu {
            if seed.iter().any(|b| *b != 0) {
                let mut d = c.clone();
                d.heu = Heu::Rand([0u8; 32]);
                out.push(d);
            }
        }
        for s in c.spec.simpler() {
            let mut d = c.clone();
            d.spec = s;
            out.push(d);
        }
        out
    }

    fn components(&self) -> serde_json::Value {
        serde_json::json!({
            "real": ["adf_bdd::adf::Adf::{stable_nogood, stable_nogood_channel, two_val_nogood_channel, nogood_internal, seed}", "adf_bdd::adf::heuristics (all built-in heuristics)", "adf_bdd::nogoods::NoGoodStore", "parser, Bdd, biodivine bridge from /repo/lib/src", "std threads (solver, consumer)"],
            "stub": ["crossbeam-channel (sim shim, unbounded/bounded/rendezvous)", "thread scheduling (baton scheduler)", "Heuristic::Custom adversary (answers from the decision source)"],
            "hook": ["adf_bdd::verif::tick in the search loop (cfg adf_obdd_verif)"],
        })
    }
}

fn heu_name(h: &Heu) -> &'static str {
    match h {
        Heu::Simple => "Simple",
        Heu::MinModMinPathsMaxVarImp => "MinModMinPathsMaxVarImp",
        Heu::MinModMaxVarImpMinPaths => "MinModMaxVarImpMinPaths",
        Heu::Rand(_) => "Rand",
        Heu::Adversary => "Custom(adversary)",
    }
}
