#!/bin/bash
# usage: tools/regress_seeded.sh <Cxx>...   — every recorded change for the given properties must
# still be reported (exit 1); prints one line per change. Applies patches to /repo (reverted each).
cd /verif
for P in "$@"; do
  for d in seeded/$P-*; do
    [ -f "$d/patch.diff" ] || continue
    [ -f "$d/meta.json" ] || continue
    out=$(tools/try_mutant.sh "/verif/$d/patch.diff" "$P" quick 2>&1 | tail -1)
    code=$(echo "$out" | sed -n 's/.*exit=\([0-9]*\).*/\1/p')
    first=$(grep -m1 -E "^  oracle=" /verif/work/mutant.out | cut -c1-160)
    echo "$(basename $d) exit=$code $first"
  done
done
