#!/bin/bash
# usage: tools/regress_all.sh  - every recorded change (seeded/<P>-*) against its property's quick
# check; expected: exit 1, except entries marked harmless_on_repaired_tree (exit 0) and the ones
# whose meta.json names another property's check as the detecting one (listed in ALT below).
cd /verif
declare -A ALT=( [C14-r2-3]=C16 )
for d in seeded/C*-*/; do
  id=$(basename "$d"); [ -f "$d/patch.diff" ] && [ -f "$d/meta.json" ] || continue
  P=${ALT[$id]:-${id%%-*}}
  harmless=$(python3 -c "import json;print(json.load(open('$d/meta.json')).get('harmless_on_repaired_tree',False))")
  sup=$(python3 -c "import json;print(json.load(open('$d/meta.json')).get('superseded_by_repair',False))"); [ "$sup" = True ] && { echo "$id superseded by a repair (patch no longer applies)"; continue; }
  out=$(tools/try_mutant.sh "/verif/$d/patch.diff" "$P" quick 2>&1 | tail -1)
  code=$(echo "$out" | sed -n 's/.*exit=\([0-9]*\).*/\1/p')
  first=$(grep -m1 -E "^  oracle=" /verif/work/mutant.out | cut -c1-120)
  want=1; [ "$harmless" = True ] && want=0
  flag=OK; [ "$code" != "$want" ] && flag="UNEXPECTED(want $want)"
  echo "$id check=$P exit=$code $flag $first"
done
