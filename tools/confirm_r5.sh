#!/bin/bash
# usage: tools/confirm_r5.sh <Cxx>  - confirms the two round-5 changes of one agent in ITS scratch
# worktree /tmp/wt5-<Cxx> (see confirm_r4.sh).
set -u
P="$1"; WT=/tmp/wt5-$P
export CARGO_NET_OFFLINE=true CARGO_TARGET_DIR=$WT/target RUST_BACKTRACE=0 TMPDIR=$WT/target/tmp
mkdir -p $WT/target/tmp
cd "$WT" || exit 2
clean() { git checkout -q -- .; rm -rf lib/tests/zz_demo.rs server/src/c16_demo.rs server/src/c17_demo.rs server/src/c17_fake_mongo.rs; }
suite() { cargo test --workspace --no-fail-fast --offline 2>&1 | grep -E "^test result" | awk '{p+=$4; f+=$6} END {print "passed " p " failed " f}'; }
res() { grep -E "^test result|^error|RESULT|FAIL|PASS" | head -3 | tr '\n' ' '; }
demo() { local n="$1" mode="$2"
  case "$P" in
    C05|C06|C19|C11) cp "$(ls mutants/$n/*.rs | head -1)" lib/tests/zz_demo.rs
      timeout 1500 cargo test -p adf_bdd --offline --release --test zz_demo 2>&1 | res; rm -f lib/tests/zz_demo.rs ;;
    C14) if [ "$n" = 1 ]; then cp mutants/1/roundtrip_midlife.rs lib/tests/zz_demo.rs; timeout 900 cargo test -p adf_bdd --offline --test zz_demo 2>&1 | res; rm -f lib/tests/zz_demo.rs
         else cargo build --offline -q -p adf-bdd-bin 2>/dev/null; bash mutants/2/demo.sh $WT/target/debug/adf-bdd 2>&1 | grep -E "scenario|RESULT|FAIL|PASS|refused|written|corrupt" | head -8 | tr '\n' ' '; fi ;;
    C16) cp mutants/$n/c16_demo.rs server/src/c16_demo.rs; printf '\n#[cfg(test)]\nmod c16_demo;\n' >> server/src/main.rs
      timeout 1800 cargo test -p adf-bdd-server --offline --features mock_long_computations c16_demo -- --test-threads=1 2>&1 | res ;;
    C17) cp mutants/$n/c17_fake_mongo.rs server/src/; cp mutants/$n/c17_demo.rs server/src/
      printf '\n#[cfg(test)]\nmod c17_demo;\n#[cfg(test)]\n#[allow(dead_code)]\nmod c17_fake_mongo;\n' >> server/src/main.rs
      timeout 1800 cargo test --offline -p adf-bdd-server c17_demo -- --test-threads=1 2>&1 | res ;;
  esac; echo; }
for n in 1 2; do
  clean
  if ! git apply --check mutants/$n/patch.diff 2>/dev/null; then echo "CONFIRM $P-r5-$n: patch does not apply"; continue; fi
  git apply mutants/$n/patch.diff
  S=$(suite); DW=$(demo $n with); clean; DWO=$(demo $n without); clean
  echo "CONFIRM $P-r5-$n"; echo "  existing suite with change: $S"; echo "  demo with change:    $DW"; echo "  demo without change: $DWO"
done
git status --short | grep -v "^??" | head
