#!/bin/bash
# usage: tools/ns_run.sh <name> <command ...>
# Runs a command in a private mount namespace in which /repo and /verif are scratch copies
# (/repo's working tree; /verif as it is now, build output included). Seeded patches can be
# applied and regressions run there while /repo and /verif themselves stay untouched and usable.
# Output: /tmp/ns-<name>.log (last line exit=<code>); the copies are removed afterwards.
set -u
NAME="$1"; shift
BASE=/tmp/ns-$NAME
rm -rf "$BASE"; mkdir -p "$BASE/repo" "$BASE/verif"
rsync -a --exclude target /repo/ "$BASE/repo/"
rsync -a --exclude work --exclude replays /verif/ "$BASE/verif/"; mkdir -p "$BASE/verif/work" "$BASE/verif/replays"
unshare -m bash -c "mount --bind $BASE/repo /repo && mount --bind $BASE/verif /verif && cd /verif && $*" > /tmp/ns-$NAME.log 2>&1
echo "exit=$?" >> /tmp/ns-$NAME.log
rm -rf "$BASE"
