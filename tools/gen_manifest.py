#!/usr/bin/env python3
"""Regenerates /verif/MANIFEST.json from the tables below (single source of truth)."""
import json, os, subprocess
ROOT = os.path.dirname(os.path.dirname(os.path.abspath(__file__)))

def repo_hook_commits():
    try:
        out = subprocess.run(["git", "-C", "/repo", "log", "--format=%H %s"], capture_output=True, text=True).stdout
        return [l.split()[0] for l in out.splitlines() if "verif hook" in l]
    except Exception:
        return []

CLAIMED = {
    "C16": dict(
        engine="srvsim",
        technique="deterministic simulation of the real service in one process: seeded schedules over client requests, gated database calls, parked blocking tasks and a paused clock, with database faults, client disconnects (request dropped at a database call), server restarts and deadline jumps; answers/graphs judged against truth-table semantics, running-flag and bounded-liveness oracles over the recorded history",
        text="The real handlers, middleware and solver run in-process against a gated in-memory MongoDB stub; the simulator decides which request is issued next, which parked database call completes next (Ok / fails before / executes but ack lost), when each parse/solve closure finishes, when the clock jumps past the 120 s deadline and when the server process crashes and restarts with only the store surviving. Oracles on every GET: models per strategy equal the definitional answers for the shown code (set-equal, duplicate-free), every graph is a faithful picture (node set = reachable set, one lo/hi edge per inner node, evaluation equals the acceptance condition under every assignment extending the shown model), unparseable code shows an error, an ended task is not listed as running; at quiescence every acknowledged solve has its result. One open known finding (results lost when the owner's account name changes while the task is in flight). Exploration-level evidence.",
        design_ref="DESIGN.md 5.7",
        note="Trusted: MongoDB stub, refsem, the graph checker, the seam hook (two added lines per closure). Real: everything under /repo/server/src except main()'s socket binding, the whole library.",
    ),
    "C17": dict(
        engine="srvsim",
        technique="deterministic simulation of the real service with 2-3 simulated clients (one world in eight: two sessions of one user): seeded interleavings at every database await point (handlers parked between any two of their calls), database faults, client disconnects, server restarts, clock jumps, tiny temporary-name space; credential model (password most recently set) next to the stored-credential checks; provenance-based foreign-write oracle inside the store, marker-based foreign-data oracle on responses, credential and own-view oracles",
        text="2-3 clients with cookie jars run generated scripts over all ten endpoints; every submitted code carries its client's marker and every stored document the provenance of the request that created it. The simulator interleaves the clients' handlers between any two database calls of one handler, fails database calls, jumps the clock and restarts the server process (fresh session key, only the store survives). Verdicts: no response contains another client's marker; no request or background task modifies or deletes a document another client created (checked at the call); own view equals the client's acknowledged data (disjoint-name configuration); stored credentials are salted argon2 strings, never plaintext, never equal for two accounts; a login is acknowledged iff the credential found was produced from the submitted password; requests without a valid session get no problem data; every client re-executed alone under the projection of the same schedule sees the identical history (O5, disjoint configuration). Two configurations (disjoint / contended account names) run separately. Exploration-level evidence; two open known findings (rename window; running flag of a former holder of an account name).",
        design_ref="DESIGN.md 5.6",
        note="Trusted: MongoDB stub incl. provenance bookkeeping, names stub, harness model.",
    ),
    "C11": dict(
        engine="libsim",
        technique="deterministic simulation (fault-free configuration of the history engine): seeded call histories on one long-lived object, seeded entropy seam, differential oracles against a fresh twin and a second independently hashed execution",
        text="Seeded search over call histories (1-25/30 public API calls in any order on one Adf: all semantics, nogood search with each built-in heuristic incl. Rand under drawn seeds, counts, facets, diagram queries, extra formulas on the shared diagram). Verdicts: every answer equals that of a fresh object asked only that question (lists in order, undecided entries and handles compared as functions by a table walker); every issued handle keeps its function after every later call; the plan executed twice on independently built objects gives identical logs incl. raw handles. Exploration-level evidence; this is the fault-free configuration whose fault-injecting counterpart is C14. A second part (store) runs long histories (up to 130 000 calls, up to 16 variables, far-apart variable indices, restriction storms at counter boundaries) on one diagram store and judges every result on 32 sampled assignments against its definition.",
        design_ref="DESIGN.md 5.3",
        note="Trusted: table walker, harness. Hash-iteration order is varied, not controlled. Insensitive by design to purely functional bugs (wrong on both sides).",
    ),
    "C14": dict(
        engine="libsim+libsim_ovf+srvsim+clisim",
        technique="deterministic simulation with restart injection: 'restart' (JSON export/import+repair, or node-list rebuild) is one more generated operation at any point of a seeded call history, only durable state survives; oracle = never-restarted twin + element-wise identity of nodes/roots across the restart",
        text="Crash-consistency pattern applied to the two persistence paths: restarts are drawn at arbitrary points of seeded call histories, any number of times; volatile (#[serde(skip)]) tables are lost. Verdicts: nodes and roots identical immediately after each restart; every later answer equals the never-restarted twin's; no panic after recovery (a second build of the same simulator with arithmetic overflow checks runs a share of the histories incl. 63-70 statement instances); the dbround part runs the service's own storage conversions (server/src/adf.rs) with a BSON round trip as the restart step inside histories of the six web strategies and compares handle for handle with a never-stored twin. Exploration-level evidence.",
        design_ref="DESIGN.md 5.4, 13.2",
        note="Trusted: harness, table walker, strace's syscall tampering. CLI part (clisim): the real adf-bdd binary under strace fault injection, path-filtered to the export file: k-th write fails (ENOSPC/EIO/EINTR) or the process is killed at it, statx/openat fail; verdicts: an existing export target is never modified, an export that exits 0 imports to the same answers, fault-free round trip prints the same output.",
    ),
    "C06": dict(
        engine="libsim+clisim",
        technique="deterministic simulation: canonicity invariant evaluated after every step of seeded histories with injected restarts / bridge imports and on streaming mirrors after every scheduled poll; plus fault-free executions of the real CLI (export + semantics in one run, re-import, second generation) compared with a direct run",
        text="Scoped claim: the node table stays reduced, ordered, duplicate-free with constants first, and distinct handles denote distinct functions (hence top/bottom iff valid/unsatisfiable), after every step of histories containing JSON re-imports, node-list rebuilds and bridge imports, for everything built afterwards, and on streaming mirrors after every poll under seeded schedules (incl. re-creating every entry on the drained mirror: existing handle, no growth). Operand functions are sampled. A third part (store) judges structural canonicity and sampled function values through tens of thousands of operations on one store over up to 16 variables, incl. variable indices 65 536 and 2^32 apart. Exploration-level evidence.",
        design_ref="DESIGN.md 5.5, 13.2",
        note="Trusted: table walker and structural checker. The purely sequential part of canonicity over plain operand functions is a pure property and not claimed.",
    ),
    "C05": dict(
        engine="libsim+heusim",
        technique="deterministic simulation: adversarial heuristic and Rand seeds drawn from the seeded decision source, solver/consumer threads baton-scheduled over simulated unbounded/bounded/rendezvous channels; multiset oracle against truth-table semantics, termination as a loop-iteration budget, channel closure as scheduler deadlock detection",
        text="Seeded search over ADFs x heuristics (built-ins, Rand under drawn seeds, a custom adversary that answers every call from the decision source = every search history such a heuristic can induce) x entry points x channel kinds x solver/consumer interleavings. Verdicts: delivered multiset equals the definitional stable / two-valued models (each once), the search ends within a counted iteration budget (bounded liveness in simulated steps, no wall clock), and the consumer loop ends (otherwise the scheduler reports a deadlock with a replayable schedule). Large instances (66-130 statements) are sparse with an exact reduction oracle. A small differential part (cliheu, 10 % of the budget, no schedule or fault - not a simulation) executes the real binary with --stmng/--twoval and every --heu value against --stm/--com: it watches a repaired defect of the CLI observation point. Exploration-level evidence.",
        design_ref="DESIGN.md 5.2, 13.2",
        note="Trusted: refsem oracle (self-tested on the repo's textbook examples), channel stub, scheduler, the tick hook (one added line in the search loop). Real: nogood_internal, all heuristics, NoGoodStore, parser/Bdd/bridge.",
    ),
    "C19": dict(
        engine="libsim",
        technique="deterministic simulation: seeded random schedules over a baton-scheduled producer/relay/receiver on a simulated channel, peer-drop faults, prefix/found-flag/final-equality oracles on the recorded history",
        text="Seeded search over (producer operation sequence, poll targets, peer-drop point) x schedules: who runs at each channel operation is a recorded decision, so polls fall between the individual sends of one producer operation. After every poll the mirror must be an exact prefix of the producer's final table with consumed+2 entries and the found flag must equal presence; after the drain all tables are equal, through a relay too; the producer must equal an unstreamed twin; a large-backlog mode lets one poll meet a stream of up to 4 200 messages, and the producer polls its own (receiver-less) store. Exploration-level evidence: a clean batch is evidence, not proof; bounds are in the evidence.",
        design_ref="DESIGN.md 5.1",
        note="Trusted: the channel stub's fidelity to crossbeam-channel (differentially self-tested), the baton scheduler, the harness. Real: Bdd operations, node(), recv(), constructors from /repo/lib/src.",
    ),
}

PENDING = {
}

NA = {
    "C01": "pure function of the ADF and back-end: no schedule, clock, fault or history in the statement; nothing for a simulator to own (DESIGN.md 6)",
    "C02": "pure function of the ADF; quantifies over inputs and back-ends only (DESIGN.md 6)",
    "C03": "pure function of the ADF and variant (DESIGN.md 6)",
    "C04": "pure function of the ADF and diagram shape; its defect is reported where it reaches a simulated surface (C16) (DESIGN.md 6, 9)",
    "C07": "pure function of operand diagrams; warm/cold memo tables are covered under C11/C14 (DESIGN.md 6)",
    "C08": "pure function of the input string (DESIGN.md 6)",
    "C09": "pure function of the parsed ADF (DESIGN.md 6)",
    "C10": "metamorphic relation between pure runs (DESIGN.md 6)",
    "C12": "quantifier is the build-time feature matrix; nothing varies at run time (DESIGN.md 6)",
    "C13": "pure functions of a diagram (DESIGN.md 6)",
    "C15": "pure function of file contents and flags in a single-threaded process; the CLI's only fault-sensitive behaviour (export file) is checked under C14 (DESIGN.md 6)",
    "C18": "sequential value type without I/O, sharing or recovery path; exercised only as a component of C05 runs (DESIGN.md 6)",
    "C20": "pure functions of the input vector (DESIGN.md 6)",
}

def main():
    checks = []
    for pid, c in sorted(CLAIMED.items()):
        checks.append({
            "property_id": pid,
            "quick_cmd": f"./check {pid} quick",
            "thorough_cmd": f"./check {pid} thorough",
            "evidence_file": f"/verif/evidence/{pid}.json",
            "replay_cmd_template": "./check replay {path}",
            "engine": c["engine"],
            "level_claimed": {"category": "exploration", "text": c["text"], "design_ref": c["design_ref"]},
            "level_note": c["note"],
            "technique": c["technique"],
        })
    na = [{"property_id": k, "reason": v} for k, v in sorted({**NA, **PENDING}.items()) if k not in CLAIMED]
    m = {
        "version": 1,
        "setup_cmd": "./check setup",
        "hooks": {
            "guard": "--cfg adf_obdd_verif",
            "enable": "RUSTFLAGS='--cfg adf_obdd_verif' (set by ./check for every engine build; engines compile /repo sources by absolute path)",
            "baseline_off_cmd": "cd /repo && cargo test --workspace --no-fail-fast --offline",
            "source_commits": repo_hook_commits(),
            "add_only": True,
        },
        "engines": [
            {"name": "srvsim", "path": "/verif/sim/srvsim", "serves_properties": sorted(p for p, c in CLAIMED.items() if "srvsim" in c["engine"]),
             "kind_free_text": "deterministic simulation of the web service: real handlers/middleware/solver in-process on a paused current-thread runtime, gated in-memory MongoDB stub, parked blocking closures, seeded step scheduler with fault injection, shrinking + replay files"},
            {"name": "clisim", "path": "/verif/sim/clisim", "serves_properties": ["C06", "C14"],
             "kind_free_text": "the real adf-bdd binary in a private directory under strace syscall fault injection at exact, replayable positions (single-threaded process => deterministic fault points); seeded case generation, fault-position enumeration in the thorough tier"},
            {"name": "heusim", "path": "/verif/sim/clisim", "serves_properties": ["C05"],
             "kind_free_text": "differential execution of the real adf-bdd binary (nogood options with every --heu value against the lazy semantics); seeded case generation, no schedule or fault - watches a repaired CLI defect"},
            {"name": "libsim_ovf", "path": "/verif/sim/libsim", "serves_properties": ["C14"],
             "kind_free_text": "the libsim engine, library and shims compiled with -C overflow-checks=on into /verif/target/ovf (the arithmetic a dev/test-profile build of the library has)"},
            {"name": "libsim", "path": "/verif/sim/libsim", "serves_properties": sorted(p for p, c in CLAIMED.items() if "libsim" in c["engine"]),
             "kind_free_text": "deterministic simulation of the library: baton-scheduled real threads over a simulated crossbeam-channel, seeded decision source, restart/peer-drop faults, shrinking + replay files"},
        ],
        "checks": checks,
        "not_applicable": na,
        "notes": "Technique family: deterministic simulation with fault injection. See DESIGN.md. Exit codes of every check: 0 clean (KNOWN-FINDING lines possible), 1 VIOLATION with replay file, 2 harness error.",
    }
    with open(os.path.join(ROOT, "MANIFEST.json"), "w") as f:
        json.dump(m, f, indent=1)
        f.write("\n")

if __name__ == "__main__":
    main()
