#!/bin/bash
# usage: tools/confirm_r7.sh <Cxx>  - confirms the two round-7 changes of one agent in ITS scratch
# worktree /tmp/wt7-<Cxx> (see confirm_r6.sh).
set -u
P="$1"; WT=/tmp/wt7-$P
export CARGO_NET_OFFLINE=true CARGO_TARGET_DIR=$WT/target RUST_BACKTRACE=0 TMPDIR=$WT/target/tmp
mkdir -p $WT/target/tmp
cd "$WT" || exit 2
clean() { git checkout -q -- .; git clean -fdq -- lib bin server; }
suite() { cargo test --workspace --no-fail-fast --offline 2>&1 | grep -E "^test result" | awk '{p+=$4; f+=$6} END {print "passed " p " failed " f}'; }
res() { grep -E "^test result|^error|RESULT|FAIL|PASS|MISMATCH|OK:|DIFFERENT|same|refused|AssertionError|keeps|Error" | head -6 | tr '\n' ' '; }
libdemo() { cp "$1" lib/tests/zz_demo.rs; timeout 1500 cargo test -p adf_bdd --offline --release --test zz_demo 2>&1 | res; }
demo() { local n="$1" mode="$2"
  case "$P-$n" in
    C05-1) libdemo mutants/1/demo_requery.rs ;;
    C05-2) libdemo mutants/2/demo_slow_consumer.rs ;;
    C06-1) libdemo mutants/1/c06_m1.rs ;;
    C06-2) libdemo mutants/2/c06_m2.rs ;;
    C11-1) libdemo mutants/1/demo_seed_fix_import.rs ;;
    C11-2) libdemo mutants/2/demo_formulacounts.rs ;;
    C14-1) libdemo mutants/1/c14_m1_rebuild.rs ;;
    C14-2) cargo build --offline -q -p adf-bdd-bin 2>/dev/null; sh mutants/2/demo.sh 2>&1 | res ;;
    C16-1) cat mutants/1/demo_test.rs >> server/src/adf.rs; timeout 1800 cargo test -p adf-bdd-server --offline c16_demo 2>&1 | res ;;
    C16-2) if [ "$mode" = with ]; then python3 mutants/2/model_demo.py mutant 2>&1 | res; else python3 mutants/2/model_demo.py head 2>&1 | tail -2 | tr '\n' ' '; fi ;;
    C19-1) libdemo mutants/1/demo_c19_m1.rs ;;
    C19-2) libdemo mutants/2/demo_c19_m2.rs ;;
  esac; echo; }
for n in 1 2; do
  clean
  if ! git apply --check mutants/$n/patch.diff 2>/dev/null; then echo "CONFIRM $P-r7-$n: patch does not apply"; continue; fi
  git apply mutants/$n/patch.diff
  S=$(suite)
  if [ "$P" = C17 ]; then
    clean; DW=$(sh mutants/$n/run.sh with 2>&1 | res); clean; DWO=$(sh mutants/$n/run.sh without 2>&1 | res)
  else
    DW=$(demo $n with); clean; DWO=$(demo $n without)
  fi
  clean
  echo "CONFIRM $P-r7-$n"; echo "  existing suite with change: $S"; echo "  demo with change:    $DW"; echo "  demo without change: $DWO"
done
git status --short | grep -v "^??" | head
