#!/bin/bash
# usage: tools/confirm_seeded.sh <worktree> <n> <seeded-id> <property> [crate=adf_bdd] [demo-dir=lib/tests]
# Confirms an agent-written change in ITS scratch worktree: applies, existing tests pass, demo fails
# with the change and passes without. Copies patch+demo to /verif/seeded/<id>/ and prints a summary.
set -u
WT="$1"; N="$2"; ID="$3"; PROP="$4"; CRATE="${5:-adf_bdd}"; DEMODIR="${6:-lib/tests}"
OUT="$WT/out/$N"
export CARGO_NET_OFFLINE=true CARGO_TARGET_DIR="$WT/target"
cd "$WT" || exit 2
git checkout -q -- . ; rm -f "$DEMODIR/zz_seeded_demo.rs"
git apply "$OUT/patch.diff" || { echo "CONFIRM $ID: patch does not apply"; exit 2; }
T_EXIST=$(cargo test -p adf_bdd --offline 2>&1 | grep -E "^test result" | tr '\n' ' ')
T_BIN=$(cargo test -p adf-bdd-bin --offline 2>&1 | grep -E "^test result" | tr '\n' ' ')
cp "$OUT/demo.rs" "$DEMODIR/zz_seeded_demo.rs"
D_WITH=$(timeout 300 cargo test -p "$CRATE" --offline --test zz_seeded_demo 2>&1 | grep -E "^test result|error(\[|:)" | head -3 | tr '\n' ' ')
git checkout -q -- .
D_WITHOUT=$(timeout 300 cargo test -p "$CRATE" --offline --test zz_seeded_demo 2>&1 | grep -E "^test result|error(\[|:)" | head -3 | tr '\n' ' ')
rm -f "$DEMODIR/zz_seeded_demo.rs"
mkdir -p "/verif/seeded/$ID"
cp "$OUT/patch.diff" "/verif/seeded/$ID/patch.diff"
cp "$OUT/demo.rs" "/verif/seeded/$ID/demo.rs"
cp "$OUT/README.md" "/verif/seeded/$ID/AGENT_README.md"
echo "CONFIRM $ID property=$PROP"
echo "  existing lib tests with change: $T_EXIST"
echo "  existing bin tests with change: $T_BIN"
echo "  demo with change:    $D_WITH"
echo "  demo without change: $D_WITHOUT"
