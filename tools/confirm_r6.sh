#!/bin/bash
# usage: tools/confirm_r6.sh <Cxx>  - confirms the two round-6 changes of one agent in ITS scratch
# worktree /tmp/wt6-<Cxx>: patch applies to HEAD, the existing suite passes with the change, the
# agent's demonstration fails with the change and passes without it.
set -u
P="$1"; WT=/tmp/wt6-$P
export CARGO_NET_OFFLINE=true CARGO_TARGET_DIR=$WT/target RUST_BACKTRACE=0 TMPDIR=$WT/target/tmp
mkdir -p $WT/target/tmp
cd "$WT" || exit 2
clean() { git checkout -q -- .; rm -rf lib/tests/zz_demo.rs server/src/demo_c16.rs server/src/c17_demo; }
suite() { cargo test --workspace --no-fail-fast --offline 2>&1 | grep -E "^test result" | awk '{p+=$4; f+=$6} END {print "passed " p " failed " f}'; }
res() { grep -E "^test result|^error|RESULT|FAIL|PASS|MISMATCH|OK:|OVERWRITTEN|untouched|DIFFERS|equal" | head -6 | tr '\n' ' '; }
libdemo() { cp "$1" lib/tests/zz_demo.rs; timeout 1500 cargo test -p adf_bdd --offline --release --test zz_demo 2>&1 | res; rm -f lib/tests/zz_demo.rs; }
demo() { local n="$1"
  case "$P-$n" in
    C05-1|C05-2) libdemo mutants/$n/demo_test.rs ;;
    C06-1) sh mutants/1/demo.sh 2>&1 | res ;;
    C06-2) libdemo mutants/2/demo_many_vars.rs ;;
    C11-1) libdemo mutants/1/c11_rollback_demo.rs ;;
    C11-2) libdemo mutants/2/c11_partial_enumeration_demo.rs ;;
    C14-1) libdemo mutants/1/second_generation.rs ;;
    C14-2) cargo build --offline -q -p adf-bdd-bin 2>/dev/null; sh mutants/2/cli_demo.sh 2>&1 | res ;;
    C16-1) git apply mutants/1/demo.diff; RUSTFLAGS="--cfg adf_obdd_verif" timeout 1800 cargo test -p adf-bdd-server --offline m1_ -- --test-threads=1 2>&1 | res ;;
    C16-2) git apply mutants/2/demo.diff; timeout 1800 cargo test -p adf-bdd-server --offline m2_ -- --test-threads=1 2>&1 | res ;;
    C19-1) libdemo mutants/1/stream_bounded_demo.rs ;;
    C19-2) libdemo mutants/2/relay_stall_demo.rs ;;
  esac; echo; }
for n in 1 2; do
  clean
  if ! git apply --check mutants/$n/patch.diff 2>/dev/null; then echo "CONFIRM $P-r6-$n: patch does not apply"; continue; fi
  git apply mutants/$n/patch.diff
  S=$(suite)
  if [ "$P" = C17 ]; then
    clean; DW=$(sh mutants/$n/run_demo.sh with 2>&1 | res); DWO=$(sh mutants/$n/run_demo.sh without 2>&1 | res)
  else
    DW=$(demo $n); clean; DWO=$(demo $n)
  fi
  clean
  echo "CONFIRM $P-r6-$n"; echo "  existing suite with change: $S"; echo "  demo with change:    $DW"; echo "  demo without change: $DWO"
done
git status --short | grep -v "^??" | head
