#!/bin/bash
# usage: tools/try_mutant.sh <patch.diff> <property> [tier]
# Applies a patch to /repo's working tree, runs the property's check, always reverts.
set -u
PATCH="$1"; PROP="$2"; TIER="${3:-quick}"
cd /repo || exit 2
if ! git diff --quiet; then echo "TRY-MUTANT: /repo working tree is not clean"; exit 2; fi
if ! git apply --check "$PATCH" 2>/dev/null; then echo "TRY-MUTANT: patch does not apply"; exit 2; fi
git apply "$PATCH"
cd /verif
START=$(date +%s)
./check "$PROP" "$TIER" > /verif/work/mutant.out 2>&1
CODE=$?
END=$(date +%s)
git -C /repo checkout -- . 
git -C /repo clean -fdq -- lib bin server 2>/dev/null
grep -E "^(VIOLATION|  oracle=|KNOWN-FINDING|OK property|HARNESS-ERROR)" /verif/work/mutant.out | cut -c1-400 | head -12
echo "TRY-MUTANT: property=$PROP patch=$PATCH exit=$CODE wall=$((END-START))s"
exit $CODE
