#!/bin/bash
# usage: tools/try_round.sh <prefix e.g. /tmp/wt2-> ; tries every out/<n>/patch.diff of the listed properties
for spec in "$@"; do
  P=${spec%%:*}; WT=${spec##*:}
  for n in 1 2 3 4; do
    if [ -f "$WT/out/$n/patch.diff" ]; then
      echo "=== $P #$n"
      /verif/tools/try_mutant.sh "$WT/out/$n/patch.diff" "$P" 2>&1 | grep -v "^WARNING" | cut -c1-330
    fi
  done
done
