#!/bin/bash
# usage: tools/confirm_r4.sh <Cxx>  - confirms the three round-4 changes of one agent in ITS scratch
# worktree /tmp/wt4-<Cxx>: patch applies, whole existing suite passes with the change, the agent's
# demonstration fails with the change and passes without. Prints one CONFIRM block per change.
set -u
P="$1"; WT=/tmp/wt4-$P
export CARGO_NET_OFFLINE=true CARGO_TARGET_DIR=$WT/target RUST_BACKTRACE=0
cd "$WT" || exit 2
clean() { git checkout -q -- .; rm -rf lib/tests/zz_demo.rs lib/examples server/src/c16_demo.rs server/src/demo_test.rs server/src/fake_mongo.rs; }
suite() { cargo test --workspace --no-fail-fast --offline 2>&1 | grep -E "^test result" | awk '{p+=$4; f+=$6} END {print "passed " p " failed " f}'; }
demo() { # $1 = n ; prints one line
  local n="$1"
  case "$P" in
    C05|C06|C19)
      cp "$(ls mutants/$n/*.rs | head -1)" lib/tests/zz_demo.rs
      timeout 900 cargo test -p adf_bdd --offline --test zz_demo 2>&1 | grep -E "^test result|^error" | head -2 | tr '\n' ' '; rm -f lib/tests/zz_demo.rs ;;
    C11)
      mkdir -p lib/examples; f=$(ls mutants/$n/demo_*.rs | head -1); cp "$f" lib/examples/; ex=$(basename "$f" .rs)
      timeout 900 cargo run --offline -q -p adf_bdd --example "$ex" > /tmp/wt4-C11/target/demo.out 2>&1; echo "exit $? $(tail -1 /tmp/wt4-C11/target/demo.out | cut -c1-120)"; rm -rf lib/examples ;;
    C14)
      if [ "$n" = 3 ]; then git apply mutants/3/demo_test.diff; timeout 1800 cargo test --offline -p adf-bdd-server c14_rebuild_demo 2>&1 | grep -E "^test result|^error" | head -2 | tr '\n' ' '
      else mkdir -p $WT/target/tmp; cargo build --offline -q -p adf-bdd-bin 2>/dev/null; bash mutants/$n/demo.sh 2>&1 | grep -E "RESULT|FAIL|PASS" | tail -1; fi ;;
    C16)
      cp mutants/c16_demo.rs server/src/c16_demo.rs; git apply mutants/demo_main.diff
      timeout 1800 cargo test -p adf-bdd-server --offline c16_demo 2>&1 | grep -E "^test result|^error" | head -2 | tr '\n' ' ' ;;
    C17)
      cp mutants/$n/fake_mongo.rs server/src/fake_mongo.rs; cp mutants/$n/demo_test.rs server/src/demo_test.rs
      printf '\n#[cfg(test)]\nmod demo_test;\n#[cfg(test)]\nmod fake_mongo;\n' >> server/src/main.rs
      timeout 1800 cargo test --offline -p adf-bdd-server demo_test -- --test-threads=1 2>&1 | grep -E "^test result|^error" | head -2 | tr '\n' ' ' ;;
  esac
  echo
}
for n in 1 2 3; do
  clean
  if ! git apply --check mutants/$n/patch.diff 2>/dev/null; then echo "CONFIRM $P-r4-$n: patch does not apply"; continue; fi
  git apply mutants/$n/patch.diff
  S=$(suite)
  DW=$(demo $n)
  clean
  DWO=$(demo $n)
  clean
  echo "CONFIRM $P-r4-$n"
  echo "  existing suite with change: $S"
  echo "  demo with change:    $DW"
  echo "  demo without change: $DWO"
done
git status --short | grep -v "^??" | head
