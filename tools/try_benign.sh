#!/bin/bash
# usage: tools/try_benign.sh <patch.diff> <Cxx> [<Cxx> ...]
# Applies a behaviour-preserving patch to /repo, runs the listed quick checks (each must exit 0), reverts.
PATCH="$1"; shift
cd /repo || exit 2
if ! git diff --quiet; then echo "TRY-BENIGN: /repo not clean"; exit 2; fi
git apply --check "$PATCH" 2>/dev/null || { echo "TRY-BENIGN: patch does not apply: $PATCH"; exit 2; }
git apply "$PATCH"
cd /verif
RES=""
for P in "$@"; do
  ./check "$P" quick > /verif/work/benign.out 2>&1
  C=$?
  RES="$RES $P=$C"
  if [ $C -ne 0 ]; then grep -E "^(VIOLATION|  oracle=|HARNESS-ERROR)" /verif/work/benign.out | cut -c1-300 | head -6; fi
done
git -C /repo checkout -- .
echo "TRY-BENIGN: patch=$PATCH ->$RES"
